#!/usr/bin/env python3
"""seeded-eval.py <id> <property> <demo-src> <demo-dst-in-repo> <demo go test args...>
Confirm a sub-agent's seeded change in a fresh scratch worktree of /repo (never in /repo itself):
 (a) builds and the existing tests pass with the change, (b) the demonstration fails with it,
 (c) the demonstration passes without it; then run the owning property's quick check (and the
 thorough one if quick misses) against the changed tree, and store everything under /verif/seeded/<id>/."""
import json, os, shutil, subprocess, sys, tempfile, time
sid, prop, demo_src, demo_dst = sys.argv[1:5]
demo_args = sys.argv[5:]
VERIF = os.path.dirname(os.path.abspath(__file__))
seed = "/tmp/seed/%s/SEED" % sid.split("-")[0] if not os.path.isdir("/tmp/seed/%s/SEED" % sid) else "/tmp/seed/%s/SEED" % sid
env = dict(os.environ, GOFLAGS="-mod=mod", GOPROXY="off", GOSUMDB="off")
tmp = tempfile.mkdtemp(prefix="verif-seeded-", dir="/tmp")
wt = os.path.join(tmp, "r")
meta = {"id": sid, "property": prop, "ran": []}
def sh(cmd, cwd=wt, timeout=900):
    r = subprocess.run(cmd, shell=True, cwd=cwd, env=env, capture_output=True, text=True, timeout=timeout)
    meta["ran"].append({"cmd": cmd, "rc": r.returncode, "tail": (r.stdout + r.stderr)[-600:]})
    return r
try:
    patch = os.path.join(seed, "patch.diff")
    # a change is evaluated on the tree it was written against when a later repair of /repo has
    # rewritten the lines it touches (SEED_BASE, recorded as applies_to_repo_commit)
    base = "HEAD"
    if os.environ.get("SEED_BASE") and (os.environ.get("SEED_FORCE_BASE") or subprocess.run(["git", "-C", "/repo", "apply", "--check", patch], capture_output=True).returncode != 0):
        base = os.environ["SEED_BASE"]
        meta["applies_to_repo_commit"] = base
    subprocess.check_call(["git", "-C", "/repo", "worktree", "add", "-q", "--detach", wt, base])
    # (c) demonstration on the unmodified tree
    shutil.copy(os.path.join(seed, demo_src), os.path.join(wt, demo_dst))
    r = sh("timeout 300 go test -vet=off -count=1 " + " ".join(demo_args))
    meta["demo_passes_without_change"] = r.returncode == 0
    os.remove(os.path.join(wt, demo_dst))
    r = subprocess.run(["git", "-C", wt, "apply", patch], capture_output=True, text=True)
    assert r.returncode == 0, r.stderr
    # (a) build + existing suite (TestPing and a few timing tests are flaky: up to 4 attempts)
    okb = False
    for _ in range(4):
        r = sh("go build ./... && go test -vet=off -count=1 ./...")
        if r.returncode == 0:
            okb = True
            break
    meta["builds_and_tests_pass_with_change"] = okb
    # (b) demonstration with the change
    shutil.copy(os.path.join(seed, demo_src), os.path.join(wt, demo_dst))
    fails = 0
    for _ in range(3):
        r = sh("timeout 300 go test -vet=off -count=1 " + " ".join(demo_args))
        if r.returncode != 0:
            fails += 1
    meta["demo_fails_with_change"] = "%d of 3 runs" % fails
    os.remove(os.path.join(wt, demo_dst))
    # my checks
    res = {}
    for tier in ("quick", "thorough"):
        e = dict(os.environ, VERIF_REPO=wt, VERIF_EVIDENCE_DIR=os.path.join(tmp, "ev"), VERIF_REPLAY_DIR=os.path.join(tmp, "rep"))
        t0 = time.time()
        r = subprocess.run([os.path.join(VERIF, "check"), prop, tier], env=e, capture_output=True, text=True)
        cls = [l for l in r.stdout.splitlines() if l.startswith("violation class:")]
        res[tier] = {"rc": r.returncode, "class": cls[0][len("violation class: "):] if cls else None, "wall_s": round(time.time() - t0, 1),
                     "message": "\n".join(r.stdout.splitlines()[1:6])[:1200]}
        if r.returncode != 0 or os.environ.get("SKIP_THOROUGH"):
            break
    meta["check"] = res
    dst = os.path.join(VERIF, "seeded", sid)
    os.makedirs(dst, exist_ok=True)
    shutil.copy(patch, os.path.join(dst, "patch.diff"))
    shutil.copy(os.path.join(seed, demo_src), os.path.join(dst, os.path.basename(demo_dst) + ".txt"))
    if os.path.exists(os.path.join(seed, "README.md")):
        shutil.copy(os.path.join(seed, "README.md"), os.path.join(dst, "AGENT-README.md"))
    meta["demo"] = {"file": os.path.basename(demo_dst) + ".txt", "place_at": demo_dst, "run": "go test -vet=off -count=1 " + " ".join(demo_args)}
    json.dump(meta, open(os.path.join(dst, "meta.json"), "w"), indent=1)
    print(sid, prop, "tests-pass-with-change=%s demo-fails-with=%s demo-passes-without=%s" % (okb, meta["demo_fails_with_change"], meta["demo_passes_without_change"]))
    for t, v in res.items():
        print("   check %s %s: rc=%d class=%s (%.0fs)" % (prop, t, v["rc"], v["class"], v["wall_s"]))
finally:
    subprocess.call(["git", "-C", "/repo", "worktree", "remove", "--force", wt])
    shutil.rmtree(tmp, ignore_errors=True)
