#!/bin/sh
# seeded-recheck.sh <patch-or-seeded-id> <Cxx> [tier] : apply one change to a scratch worktree of /repo and run
# one check against it (evidence and replays go to a temporary directory).  Prints the check's verdict lines.
id=$1; p=$2; tier=${3:-quick}
patch=$id; [ -f "$patch" ] || patch=/verif/seeded/$id/patch.diff; [ -f "$patch" ] || patch=/tmp/seed/$id/SEED/patch.diff
[ -f "$patch" ] || { echo "no patch for $id"; exit 2; }
wt=$(mktemp -d /tmp/recheck.XXXXXX); tmp=$(mktemp -d /tmp/recheck-out.XXXXXX)
git -C /repo worktree add -q --detach $wt/r ${BASE:-HEAD} || exit 2
git -C $wt/r apply "$patch" || { git -C /repo worktree remove --force $wt/r; rm -rf $wt $tmp; echo "patch does not apply"; exit 2; }
VERIF_REPO=$wt/r VERIF_EVIDENCE_DIR=$tmp/ev VERIF_REPLAY_DIR=$tmp/rep /verif/check $p $tier 2>&1 | grep -E "^check |^VIOLATION|^violation class|^KNOWN|INFRA|HARNESS" | head -${RECHECK_LINES:-6}
rc=$?
git -C /repo worktree remove --force $wt/r; rm -rf $wt $tmp
exit 0
