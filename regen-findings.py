#!/usr/bin/env python3
"""Regenerate /verif/findings: for every fix: commit F in /repo, run the owning property's quick
check on a scratch worktree at F^ (all earlier fixes applied, this one not) and keep the replay file
it produces; then confirm the same check passes at F.  Witness files are choice vectors and belong
to the current version of the worlds, so this is re-run whenever a world's generator changes."""
import json, os, shutil, subprocess, sys, tempfile
VERIF = os.path.dirname(os.path.abspath(__file__))
FIXES = [  # (grep in subject, property, acceptable classes, witness name)
    ("Close keeps draining", "C07", "C07.disconnect-not-completed,C07.close-did-not-return,C07.stall", "C07-close-deadlock-queues-not-drained"),
    ("send calls Close when its context", "C07", "C07.disconnect-not-completed,C07.stall", "C07-cancel-while-handler-blocked-on-output-queue"),
    ("no longer close the next connection", "C07", "C07.torn-down-without-cause", "C07-late-close-tears-down-next-connection"),
    ("keep Config.Me when the tracker declines", "C17", "C17.config-me-nil", "C17-config-me-nil-after-welcome-with-tracking"),
    ("keep Config.Me when the tracker declines", "C07", "C07.no-registration-on-reconnect", "C07-no-registration-on-reconnect-with-tracking"),
    ("Connected() no longer deadlocks", "C06", "C06.stall,C06.disconnect-not-completed,C06.close-did-not-return", "C06-handler-calling-Connected-deadlocks-with-Close"),
    ("refused Connect no longer resets", "C06", "C06.panic,C06.connect-while-connected", "C06-connect-while-connected-wrecks-live-connection"),
    ("undo the backslash escape", "C01", "C01.parse", "C01-tag-backslash-escape-not-undone"),
    ("no longer panic on short or malformed", "C02", "C02.parse-panic,C02.accessor-panic,C02.panic", "C02-parser-and-accessors-panic"),
    ("consumes the argument of list modes", "C13", "C13.tracker-differs", "C13-list-mode-argument-misaligns-privilege-change"),
    ("bracketed IPv6 literal", "C18", "C18.dial-address", "C18-bracketed-ipv6-literal-without-port"),
    ("re-registers with its current nick", "C18", "C18.registration-lines", "C18-stale-nick-on-reconnect-with-tracking"),
    ("no longer overlaps the previous Connect", "C18", "C18.registration-lines-of-the-dead-connection,C18.registration-lines", "C18-reconnect-overlaps-register-of-the-dead-connection"),
    ("even when send and the event loop are both blocked", "C07", "C07.disconnect-not-completed,C07.stall", "C07-cancel-while-send-and-event-loop-are-both-blocked"),
    ("put into the new connection's output queue", "C07", "C07.stall,C07.disconnect-not-completed,C07.close-did-not-return", "C07-connect-blocked-on-a-full-queue-while-the-teardown-needs-the-mutex"),
    ("capability negotiation state no longer survives", "C19", "C19.req,C19.empty-intersection", "C19-reconnect-requests-capabilities-the-new-server-did-not-advertise"),
]
# Two witnesses cannot be taken on F^ any more: the worlds have grown since, and on those old trees
# the same violation class is now reached first through defects that were repaired later (the
# replay then still fails on F).  For them the broken tree is the current HEAD with just that
# repair undone, and the fixed tree is HEAD.
UNFIX = {
    "even when send and the event loop are both blocked": ("revert", None),
    "Connected() no longer deadlocks": ("edit", ("client/connection.go",
        "\tconn.connMu.RLock()\n\tdefer conn.connMu.RUnlock()\n\treturn conn.connected",
        "\tconn.mu.RLock()\n\tdefer conn.mu.RUnlock()\n\treturn conn.connected")),
}
only = sys.argv[1:]
ok = {}
for pat, prop, classes, name in FIXES:
    if only and not any(o in name for o in only):
        continue
    h = subprocess.run(["git", "-C", "/repo", "log", "--format=%H", "-1", "--grep=" + pat], capture_output=True, text=True).stdout.strip()
    if not h:
        print("no commit for", pat); continue
    tmp = tempfile.mkdtemp(prefix="verif-regen-", dir="/tmp")
    ok[name] = False
    try:
        for seed in range(1, 6):
            wt = os.path.join(tmp, "r")
            if pat in UNFIX:
                subprocess.check_call(["git", "-C", "/repo", "worktree", "add", "-q", "--detach", wt, "HEAD"])
                how, arg = UNFIX[pat]
                if how == "revert":
                    subprocess.check_call(["git", "-C", wt, "revert", "--no-commit", h], stdout=subprocess.DEVNULL)
                else:
                    f = os.path.join(wt, arg[0]); src = open(f).read(); assert arg[1] in src
                    open(f, "w").write(src.replace(arg[1], arg[2], 1))
            else:
                subprocess.check_call(["git", "-C", "/repo", "worktree", "add", "-q", "--detach", wt, h + "^"])
            e = dict(os.environ, VERIF_REPO=wt, VERIF_SEED=str(seed), VERIF_ONLY_CLASS=classes, VERIF_EVIDENCE_DIR=os.path.join(tmp, "ev"), VERIF_REPLAY_DIR=os.path.join(tmp, "rep"))
            r = subprocess.run([os.path.join(VERIF, "check"), prop, "quick"], env=e, capture_output=True, text=True)
            subprocess.call(["git", "-C", "/repo", "worktree", "remove", "--force", wt])
            cls = [l for l in r.stdout.splitlines() if l.startswith("violation class:")]
            if r.returncode != 1:
                print("%-58s seed %d: no violation of %s on fix^ (rc=%d)" % (name, seed, classes, r.returncode), flush=True)
                continue
            rep = [l.split("replay=")[1] for l in r.stdout.splitlines() if l.startswith("VIOLATION")][0]
            # the witness must stop failing on the tree with the fix
            subprocess.check_call(["git", "-C", "/repo", "worktree", "add", "-q", "--detach", wt, "HEAD" if pat in UNFIX else h])
            e2 = dict(os.environ, VERIF_REPO=wt, VERIF_TRACE_LINES="0")
            r2 = subprocess.run([os.path.join(VERIF, "check"), "replay", rep], env=e2, capture_output=True, text=True)
            subprocess.call(["git", "-C", "/repo", "worktree", "remove", "--force", wt])
            print("%-58s seed %d: %s on fix^; replay on the fixed tree rc=%d" % (name, seed, cls[0] if cls else "?", r2.returncode), flush=True)
            if r2.returncode == 0:
                os.makedirs(os.path.join(VERIF, "findings"), exist_ok=True)
                dst = os.path.join(VERIF, "findings", name + ".json")
                j = json.load(open(rep)); j["found_on_tree"] = "the tree just before fix commit " + h[:7] + " (" + h[:7] + "^); the same vectors pass on " + h[:7]
                if pat in UNFIX:
                    j["found_on_tree"] = "the current tree of /repo with the repair " + h[:7] + " undone (all other repairs in place); the same vectors pass on the current tree"
                json.dump(j, open(dst, "w"), indent=1)
                ok[name] = True
                break
    finally:
        shutil.rmtree(tmp, ignore_errors=True)
print("all witnesses regenerated" if all(ok.values()) else "MISSING: %s" % [k for k, v in ok.items() if not v])
