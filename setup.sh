#!/bin/sh
# Offline setup: build the instrumenter and warm the Go build cache so that the
# first check does not pay for compiling the standard library.
set -e
cd "$(dirname "$0")"
export GOFLAGS=-mod=mod GOPROXY=off GOSUMDB=off GOTOOLCHAIN=local
export PATH=/opt/veriftools/go1.26.8/bin:$PATH
mkdir -p bin evidence
(cd sim && go build -o ../bin/instr ./cmd/instr)
./check build >/dev/null
rm -rf /tmp/verif-build-*
echo setup ok
