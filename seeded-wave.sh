#!/bin/sh
# seeded-wave.sh <suffix> <Cxx>... : evaluate /tmp/seed/<Cxx><suffix>/SEED for each property (package and
# demo file are detected); one line of summary per change.  SKIP_THOROUGH=1 stops after the quick check.
suf=$1; shift
for p in "$@"; do
  d=/tmp/seed/${p}${suf}/SEED
  f=$(ls $d/*demo*_test.go* 2>/dev/null | head -1)
  [ -z "$f" ] && { echo "$p$suf: no demonstration file in $d"; continue; }
  pkg=$(grep -m1 '^package ' "$f" | awk '{print $2}' | sed 's/_test$//')
  dir=client; [ "$pkg" = state ] && dir=state
  tags=""; grep -q 'go:build seeddemo' "$f" && tags="-tags seeddemo"
  timeout ${WAVE_TIMEOUT:-1500} /verif/seeded-eval.py ${p}${suf} $p $(basename $f) $dir/seed_demo_test.go $tags -run TestSeed ./$dir/ 2>&1 | tail -3
done
