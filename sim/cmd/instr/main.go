// Command instr writes an instrumented copy of fluffle/goirc's client and state
// packages (working tree at -src) to -dst.  See DESIGN.md section 2.2.
//
// Rewrites (mechanical; no expression of the original logic is changed):
//  1. simrt.Yield(site) before every statement of every function body/literal
//  2. sync.Mutex / sync.RWMutex / sync.WaitGroup -> simrt types
//  3. go f(a, b) -> simrt.Go(site, closure) with callee and arguments evaluated
//     in the parent
//  4. select with >= 2 communication cases and no default -> cases polled in an
//     order drawn from the run vector before blocking
//  5. range over a map -> iteration over simrt.MapOrder(m)
package main

import (
	"bytes"
	"flag"
	"fmt"
	"go/ast"
	"go/format"
	"go/parser"
	"go/token"
	"go/types"
	"io"
	"os"
	"path/filepath"
	"reflect"
	"strconv"
	"strings"

	"golang.org/x/tools/go/ast/astutil"
	"golang.org/x/tools/go/packages"
)

const simrtPath = "verifsim/simrt"
const simnetPath = "verifsim/simnet"

var (
	src     = flag.String("src", "/repo", "goirc working tree")
	dst     = flag.String("dst", "", "output directory (created)")
	verbose = flag.Bool("v", false, "verbose")
)

type stats struct {
	yields, gos, selects, maps, syncs, mapsSkipped int
}

func main() {
	flag.Parse()
	if *dst == "" {
		fatal("need -dst")
	}
	st := &stats{}
	must(os.MkdirAll(*dst, 0o755))

	// go.mod: keep every requirement, set go 1.21 (pre-1.22 loop variable
	// semantics, generics allowed).
	gm, err := os.ReadFile(filepath.Join(*src, "go.mod"))
	must(err)
	var out []string
	seenGo := false
	for _, l := range strings.Split(string(gm), "\n") {
		t := strings.TrimSpace(l)
		if strings.HasPrefix(t, "go ") {
			out = append(out, "go 1.21")
			seenGo = true
			continue
		}
		if strings.HasPrefix(t, "toolchain ") {
			continue
		}
		out = append(out, l)
	}
	if !seenGo {
		out = append(out, "go 1.21")
	}
	must(os.WriteFile(filepath.Join(*dst, "go.mod"), []byte(strings.Join(out, "\n")), 0o644))
	copyFile(filepath.Join(*src, "go.sum"), filepath.Join(*dst, "go.sum"))

	// logging: verbatim
	must(os.MkdirAll(filepath.Join(*dst, "logging"), 0o755))
	copyFile(filepath.Join(*src, "logging", "logging.go"), filepath.Join(*dst, "logging", "logging.go"))

	typed := loadTyped()
	for _, dir := range []string{"client", "state"} {
		must(os.MkdirAll(filepath.Join(*dst, dir), 0o755))
		ents, err := os.ReadDir(filepath.Join(*src, dir))
		must(err)
		for _, e := range ents {
			name := e.Name()
			if e.IsDir() || !strings.HasSuffix(name, ".go") || strings.HasSuffix(name, "_test.go") {
				continue
			}
			in := filepath.Join(*src, dir, name)
			outp := filepath.Join(*dst, dir, name)
			if strings.HasPrefix(name, "mock_") {
				copyFile(in, outp)
				continue
			}
			abs, _ := filepath.Abs(in)
			var fset *token.FileSet
			var file *ast.File
			var info *types.Info
			if tf, ok := typed[abs]; ok {
				fset, file, info = tf.fset, tf.file, tf.info
			} else {
				fset = token.NewFileSet()
				file, err = parser.ParseFile(fset, in, nil, 0)
				if err != nil {
					fatal("parse %s: %v", in, err)
				}
				fmt.Fprintf(os.Stderr, "instr: warning: no type information for %s (map ranges left to Go's order)\n", in)
			}
			r := &rewriter{fset: fset, info: info, rel: dir + "/" + name, st: st}
			r.file(file)
			var buf bytes.Buffer
			file.Comments = nil
			if err := format.Node(&buf, fset, file); err != nil {
				fatal("print %s: %v", in, err)
			}
			must(os.WriteFile(outp, buf.Bytes(), 0o644))
		}
	}
	fmt.Printf("instr: yields=%d go=%d select=%d maprange=%d (skipped %d) synctypes=%d\n",
		st.yields, st.gos, st.selects, st.maps, st.mapsSkipped, st.syncs)
}

type typedFile struct {
	fset *token.FileSet
	file *ast.File
	info *types.Info
}

func loadTyped() map[string]typedFile {
	res := map[string]typedFile{}
	cfg := &packages.Config{
		Mode: packages.NeedName | packages.NeedFiles | packages.NeedCompiledGoFiles | packages.NeedImports |
			packages.NeedTypes | packages.NeedTypesSizes | packages.NeedSyntax | packages.NeedTypesInfo,
		Dir: *src,
		Env: append(os.Environ(), "GOFLAGS=-mod=mod", "GOPROXY=off", "GOSUMDB=off"),
	}
	pkgs, err := packages.Load(cfg, "./client", "./state")
	if err != nil {
		fmt.Fprintf(os.Stderr, "instr: warning: go/packages failed: %v\n", err)
		return res
	}
	for _, p := range pkgs {
		if len(p.Errors) > 0 {
			// The tree does not type-check: let the compiler report it when the
			// check builds; fall back to syntax-only instrumentation.
			fmt.Fprintf(os.Stderr, "instr: warning: %s has errors: %v\n", p.PkgPath, p.Errors[0])
			continue
		}
		for i, f := range p.Syntax {
			if i < len(p.CompiledGoFiles) {
				abs, _ := filepath.Abs(p.CompiledGoFiles[i])
				res[abs] = typedFile{p.Fset, f, p.TypesInfo}
			}
		}
	}
	return res
}

// ---------------------------------------------------------------------------

type rewriter struct {
	fset *token.FileSet
	info *types.Info
	rel  string
	st   *stats
	tmp  int
}

func (r *rewriter) site(p token.Pos) string {
	return r.rel + ":" + strconv.Itoa(r.fset.Position(p).Line)
}

func (r *rewriter) file(f *ast.File) {
	syncName := ""
	for _, im := range f.Imports {
		if im.Path.Value == `"sync"` {
			syncName = "sync"
			if im.Name != nil {
				syncName = im.Name.Name
			}
		}
	}
	// 2a. time.AfterFunc: the callback must run as a task of the simulator
	timeName := ""
	for _, im := range f.Imports {
		if im.Path.Value == `"time"` {
			timeName = "time"
			if im.Name != nil {
				timeName = im.Name.Name
			}
		}
	}
	if timeName != "" && timeName != "_" && timeName != "." {
		ast.Inspect(f, func(n ast.Node) bool {
			se, ok := n.(*ast.SelectorExpr)
			if !ok || se.Sel.Name != "AfterFunc" {
				return true
			}
			id, ok := se.X.(*ast.Ident)
			if !ok || id.Name != timeName {
				return true
			}
			if r.info != nil {
				if _, isPkg := r.info.Uses[id].(*types.PkgName); !isPkg {
					return true
				}
			}
			se.X = ast.NewIdent("simrt")
			r.st.syncs++
			return true
		})
	}
	// 2b. (*net.Dialer).DialContext: the direct, non-proxy dial goes to the
	// simulated network as well
	usesSimnet := false
	if r.info != nil {
		ast.Inspect(f, func(n ast.Node) bool {
			ce, ok := n.(*ast.CallExpr)
			if !ok {
				return true
			}
			se, ok := ce.Fun.(*ast.SelectorExpr)
			if !ok || se.Sel.Name != "DialContext" {
				return true
			}
			if t := r.info.TypeOf(se.X); t == nil || (t.String() != "*net.Dialer" && t.String() != "net.Dialer") {
				return true
			}
			// (the dialer stays an argument, so that a local variable holding it
			// remains used)
			ce.Args = append([]ast.Expr{se.X}, ce.Args...)
			ce.Fun = &ast.SelectorExpr{X: ast.NewIdent("simnet"), Sel: ast.NewIdent("DirectDialContext")}
			usesSimnet = true
			r.st.syncs++
			return true
		})
	}
	if usesSimnet {
		astutil.AddImport(r.fset, f, simnetPath)
	}
	// 2. sync types
	if syncName != "" && syncName != "_" && syncName != "." {
		ast.Inspect(f, func(n ast.Node) bool {
			se, ok := n.(*ast.SelectorExpr)
			if !ok {
				return true
			}
			id, ok := se.X.(*ast.Ident)
			if !ok || id.Name != syncName {
				return true
			}
			if r.info != nil {
				if _, isPkg := r.info.Uses[id].(*types.PkgName); !isPkg {
					return true
				}
			}
			switch se.Sel.Name {
			case "Mutex", "RWMutex", "WaitGroup", "Once", "Cond", "NewCond", "Pool":
				se.X = ast.NewIdent("simrt")
				r.st.syncs++
			}
			return true
		})
	}
	for _, d := range f.Decls {
		switch d := d.(type) {
		case *ast.FuncDecl:
			if d.Body != nil {
				r.block(d.Body)
			}
		case *ast.GenDecl:
			r.exprs(d)
		}
	}
	if astutil.UsesImport(f, simrtPath) || usesSimrt(f) {
		astutil.AddImport(r.fset, f, simrtPath)
	}
	if syncName != "" && !astutil.UsesImport(f, "sync") {
		astutil.DeleteImport(r.fset, f, "sync")
	}
	if timeName != "" && !astutil.UsesImport(f, "time") {
		astutil.DeleteImport(r.fset, f, "time")
	}
}

func usesSimrt(f *ast.File) bool {
	found := false
	ast.Inspect(f, func(n ast.Node) bool {
		if se, ok := n.(*ast.SelectorExpr); ok {
			if id, ok := se.X.(*ast.Ident); ok && id.Name == "simrt" {
				found = true
			}
		}
		return !found
	})
	return found
}

func (r *rewriter) yield(p token.Pos) ast.Stmt {
	r.st.yields++
	return &ast.ExprStmt{X: call("simrt", "Yield", strLit(r.site(p)))}
}

func call(pkg, fn string, args ...ast.Expr) *ast.CallExpr {
	return &ast.CallExpr{Fun: &ast.SelectorExpr{X: ast.NewIdent(pkg), Sel: ast.NewIdent(fn)}, Args: args}
}

func strLit(s string) ast.Expr {
	return &ast.BasicLit{Kind: token.STRING, Value: strconv.Quote(s)}
}

func intLit(i int) ast.Expr {
	return &ast.BasicLit{Kind: token.INT, Value: strconv.Itoa(i)}
}

func (r *rewriter) block(b *ast.BlockStmt) {
	if b == nil {
		return
	}
	b.List = r.stmts(b.List, b.Pos())
}

func (r *rewriter) stmts(list []ast.Stmt, pos token.Pos) []ast.Stmt {
	out := make([]ast.Stmt, 0, 2*len(list)+1)
	for _, s := range list {
		if _, ok := s.(*ast.EmptyStmt); ok {
			out = append(out, s)
			continue
		}
		out = append(out, r.yield(s.Pos()))
		out = append(out, r.stmt(s))
	}
	return out
}

// loopBody makes sure a loop yields even when its body is empty.
func (r *rewriter) loopBody(b *ast.BlockStmt) {
	r.block(b)
	if len(b.List) == 0 {
		b.List = []ast.Stmt{r.yield(b.Pos())}
	}
}

func (r *rewriter) stmt(s ast.Stmt) ast.Stmt {
	switch s := s.(type) {
	case *ast.BlockStmt:
		r.block(s)
	case *ast.IfStmt:
		if s.Init != nil {
			r.exprs(s.Init)
		}
		r.exprs(s.Cond)
		r.block(s.Body)
		if s.Else != nil {
			s.Else = r.stmt(s.Else)
		}
	case *ast.ForStmt:
		if s.Init != nil {
			r.exprs(s.Init)
		}
		if s.Cond != nil {
			r.exprs(s.Cond)
		}
		if s.Post != nil {
			r.exprs(s.Post)
		}
		r.loopBody(s.Body)
	case *ast.RangeStmt:
		r.exprs(s.X)
		r.loopBody(s.Body)
		return r.mapRange(s)
	case *ast.SwitchStmt:
		if s.Init != nil {
			r.exprs(s.Init)
		}
		if s.Tag != nil {
			r.exprs(s.Tag)
		}
		r.clauses(s.Body)
	case *ast.TypeSwitchStmt:
		if s.Init != nil {
			r.exprs(s.Init)
		}
		r.exprs(s.Assign)
		r.clauses(s.Body)
	case *ast.SelectStmt:
		for _, c := range s.Body.List {
			cc := c.(*ast.CommClause)
			if cc.Comm != nil {
				r.exprs(cc.Comm)
			}
			cc.Body = r.stmts(cc.Body, cc.Pos())
			if len(cc.Body) == 0 {
				cc.Body = []ast.Stmt{r.yield(cc.Pos())}
			}
		}
		return r.selectStmt(s)
	case *ast.LabeledStmt:
		s.Stmt = r.stmt(s.Stmt)
	case *ast.GoStmt:
		r.exprs(s.Call)
		return r.goStmt(s)
	default:
		r.exprs(s)
	}
	return s
}

func (r *rewriter) clauses(b *ast.BlockStmt) {
	for _, c := range b.List {
		cc := c.(*ast.CaseClause)
		for _, e := range cc.List {
			r.exprs(e)
		}
		cc.Body = r.stmts(cc.Body, cc.Pos())
	}
}

// exprs instruments the bodies of function literals found under n.
func (r *rewriter) exprs(n ast.Node) {
	if n == nil {
		return
	}
	ast.Inspect(n, func(x ast.Node) bool {
		if fl, ok := x.(*ast.FuncLit); ok {
			r.block(fl.Body)
			return false
		}
		return true
	})
}

func (r *rewriter) name(prefix string) string {
	r.tmp++
	return fmt.Sprintf("_sim%s%d", prefix, r.tmp)
}

// 3. go statements
func (r *rewriter) goStmt(g *ast.GoStmt) ast.Stmt {
	r.st.gos++
	var pre []ast.Stmt
	fn := r.name("f")
	pre = append(pre, &ast.AssignStmt{Lhs: []ast.Expr{ast.NewIdent(fn)}, Tok: token.DEFINE, Rhs: []ast.Expr{g.Call.Fun}})
	var args []ast.Expr
	for _, a := range g.Call.Args {
		if r.isConst(a) {
			args = append(args, a)
			continue
		}
		an := r.name("a")
		pre = append(pre, &ast.AssignStmt{Lhs: []ast.Expr{ast.NewIdent(an)}, Tok: token.DEFINE, Rhs: []ast.Expr{a}})
		args = append(args, ast.NewIdent(an))
	}
	inner := &ast.CallExpr{Fun: ast.NewIdent(fn), Args: args, Ellipsis: g.Call.Ellipsis}
	lit := &ast.FuncLit{
		Type: &ast.FuncType{Params: &ast.FieldList{}},
		Body: &ast.BlockStmt{List: []ast.Stmt{&ast.ExprStmt{X: inner}}},
	}
	pre = append(pre, &ast.ExprStmt{X: call("simrt", "Go", strLit(r.site(g.Pos())), lit)})
	return &ast.BlockStmt{List: pre}
}

func (r *rewriter) isConst(e ast.Expr) bool {
	switch x := e.(type) {
	case *ast.BasicLit:
		return true
	case *ast.Ident:
		if x.Name == "nil" || x.Name == "true" || x.Name == "false" {
			return true
		}
	}
	if r.info != nil {
		if tv, ok := r.info.Types[e]; ok && (tv.Value != nil || tv.IsNil()) {
			return true
		}
	}
	return false
}

// 4. select
func (r *rewriter) selectStmt(s *ast.SelectStmt) ast.Stmt {
	n := 0
	for _, c := range s.Body.List {
		if c.(*ast.CommClause).Comm == nil {
			return s // has default: never blocks on a random choice among ready cases... leave
		}
		n++
	}
	if n < 2 {
		return s
	}
	r.st.selects++
	ord := r.name("o")
	var build func(level int) *ast.SelectStmt
	build = func(level int) *ast.SelectStmt {
		if level == n {
			return s
		}
		sel := &ast.SelectStmt{Body: &ast.BlockStmt{}}
		for i, c := range s.Body.List {
			cc := cloneNode(c).(*ast.CommClause)
			cond := &ast.BinaryExpr{
				X:  &ast.IndexExpr{X: ast.NewIdent(ord), Index: intLit(level)},
				Op: token.EQL,
				Y:  intLit(i),
			}
			gateComm(cc, cond)
			sel.Body.List = append(sel.Body.List, cc)
		}
		sel.Body.List = append(sel.Body.List, &ast.CommClause{Body: []ast.Stmt{build(level + 1)}})
		return sel
	}
	return &ast.BlockStmt{List: []ast.Stmt{
		&ast.AssignStmt{Lhs: []ast.Expr{ast.NewIdent(ord)}, Tok: token.DEFINE,
			Rhs: []ast.Expr{call("simrt", "SelectOrder", strLit(r.site(s.Pos())), intLit(n))}},
		build(0),
	}}
}

func gateComm(cc *ast.CommClause, cond ast.Expr) {
	gate := func(ch ast.Expr) ast.Expr { return call("simrt", "Gate", ch, cond) }
	recv := func(e ast.Expr) {
		if u, ok := e.(*ast.UnaryExpr); ok && u.Op == token.ARROW {
			u.X = gate(u.X)
		} else if p, ok := e.(*ast.ParenExpr); ok {
			if u, ok := p.X.(*ast.UnaryExpr); ok && u.Op == token.ARROW {
				u.X = gate(u.X)
			}
		}
	}
	switch c := cc.Comm.(type) {
	case *ast.SendStmt:
		c.Chan = gate(c.Chan)
	case *ast.ExprStmt:
		recv(c.X)
	case *ast.AssignStmt:
		if len(c.Rhs) == 1 {
			recv(c.Rhs[0])
		}
	}
}

// 5. map ranges
func (r *rewriter) mapRange(s *ast.RangeStmt) ast.Stmt {
	if r.info == nil {
		return s
	}
	t := r.info.TypeOf(s.X)
	if t == nil {
		return s
	}
	if _, ok := t.Underlying().(*types.Map); !ok {
		return s
	}
	if !pure(s.X) {
		r.st.mapsSkipped++
		fmt.Fprintf(os.Stderr, "instr: note: %s: range over a map expression with possible side effects left untouched\n", r.site(s.Pos()))
		return s
	}
	r.st.maps++
	kn, vn, okn := r.name("k"), r.name("v"), r.name("ok")
	isBlank := func(e ast.Expr) bool {
		if e == nil {
			return true
		}
		id, ok := e.(*ast.Ident)
		return ok && id.Name == "_"
	}
	var pre []ast.Stmt
	lookup := &ast.IndexExpr{X: cloneNode(s.X).(ast.Expr), Index: ast.NewIdent(kn)}
	valLhs := ast.NewIdent("_")
	if !isBlank(s.Value) {
		valLhs = ast.NewIdent(vn)
	}
	pre = append(pre, &ast.AssignStmt{Lhs: []ast.Expr{valLhs, ast.NewIdent(okn)}, Tok: token.DEFINE, Rhs: []ast.Expr{lookup}})
	pre = append(pre, &ast.IfStmt{Cond: &ast.UnaryExpr{Op: token.NOT, X: ast.NewIdent(okn)},
		Body: &ast.BlockStmt{List: []ast.Stmt{&ast.BranchStmt{Tok: token.CONTINUE}}}})
	var lhs, rhs []ast.Expr
	if !isBlank(s.Key) {
		lhs = append(lhs, s.Key)
		rhs = append(rhs, ast.NewIdent(kn))
	}
	if !isBlank(s.Value) {
		lhs = append(lhs, s.Value)
		rhs = append(rhs, ast.NewIdent(vn))
	}
	if len(lhs) > 0 {
		pre = append(pre, &ast.AssignStmt{Lhs: lhs, Tok: s.Tok, Rhs: rhs})
	}
	body := &ast.BlockStmt{List: append(pre, s.Body.List...)}
	return &ast.RangeStmt{
		Key:   ast.NewIdent("_"),
		Value: ast.NewIdent(kn),
		Tok:   token.DEFINE,
		X:     call("simrt", "MapOrder", s.X),
		Body:  body,
	}
}

func pure(e ast.Expr) bool {
	switch x := e.(type) {
	case *ast.Ident:
		return true
	case *ast.SelectorExpr:
		return pure(x.X)
	case *ast.ParenExpr:
		return pure(x.X)
	case *ast.StarExpr:
		return pure(x.X)
	}
	return false
}

// ---------------------------------------------------------------------------
// deep clone of AST nodes

var (
	objType   = reflect.TypeOf((*ast.Object)(nil))
	scopeType = reflect.TypeOf((*ast.Scope)(nil))
)

func cloneNode(n ast.Node) ast.Node {
	return cloneVal(reflect.ValueOf(n)).Interface().(ast.Node)
}

func cloneVal(v reflect.Value) reflect.Value {
	switch v.Kind() {
	case reflect.Ptr:
		if v.IsNil() {
			return v
		}
		if v.Type() == objType || v.Type() == scopeType {
			return reflect.Zero(v.Type())
		}
		nv := reflect.New(v.Type().Elem())
		nv.Elem().Set(cloneVal(v.Elem()))
		return nv
	case reflect.Interface:
		if v.IsNil() {
			return v
		}
		nv := reflect.New(v.Type()).Elem()
		nv.Set(cloneVal(v.Elem()))
		return nv
	case reflect.Slice:
		if v.IsNil() {
			return v
		}
		nv := reflect.MakeSlice(v.Type(), v.Len(), v.Len())
		for i := 0; i < v.Len(); i++ {
			nv.Index(i).Set(cloneVal(v.Index(i)))
		}
		return nv
	case reflect.Struct:
		nv := reflect.New(v.Type()).Elem()
		for i := 0; i < v.NumField(); i++ {
			if nv.Field(i).CanSet() {
				nv.Field(i).Set(cloneVal(v.Field(i)))
			}
		}
		return nv
	}
	return v
}

// ---------------------------------------------------------------------------

func copyFile(a, b string) {
	in, err := os.Open(a)
	must(err)
	defer in.Close()
	out, err := os.Create(b)
	must(err)
	defer out.Close()
	_, err = io.Copy(out, in)
	must(err)
}

func must(err error) {
	if err != nil {
		fatal("%v", err)
	}
}

func fatal(f string, a ...interface{}) {
	fmt.Fprintf(os.Stderr, "instr: "+f+"\n", a...)
	os.Exit(2)
}
