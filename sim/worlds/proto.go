package worlds

import (
	"context"
	"crypto/ed25519"
	crand "crypto/rand"
	"crypto/tls"
	"crypto/x509"
	"crypto/x509/pkix"
	"encoding/base64"
	"errors"
	"fmt"
	"math/big"
	"sort"
	"strings"
	"time"

	sasl "github.com/emersion/go-sasl"
	"github.com/fluffle/goirc/client"

	"verifsim/simnet"
	"verifsim/simrt"
)

// Scripted-server worlds: W-nick (C17), W-reg (C18), W-cap (C19), W-log (C20).
func init() {
	register(&World{Name: "nick", Run: nickRun, MaxSteps: 1000000, MaxSimTime: 100 * time.Hour})
	register(&World{Name: "reg", Run: regRun, MaxSteps: 2000000, MaxSimTime: 400 * time.Hour})
	register(&World{Name: "cap", Run: capRun, MaxSteps: 1000000, MaxSimTime: 100 * time.Hour})
	register(&World{Name: "log", Run: logRun, MaxSteps: 1000000, MaxSimTime: 100 * time.Hour})
}

// ---------------------------------------------------------------------------
// C17: the client always knows its own current nick

func refDefaultNewNickOK(in, out string) string {
	if in == "" {
		return ""
	}
	if out == in {
		return "the same nick"
	}
	if len(out) != len(in) {
		return fmt.Sprintf("a nick of length %d (input %d)", len(out), len(in))
	}
	if out[:len(out)-1] != in[:len(in)-1] {
		return "a nick that differs before its last character"
	}
	return ""
}

func nickRun(e *Env) {
	g := G{e.S}
	track := g.Bool()
	genKind := g.W(5, 2, 1, 1, 1)
	// (the last one keeps state: a fallback list walked by a counter.  What it
	// derives from a refused nick is whatever it returned when it was asked)
	statefulN := 0
	derived := map[string][]string{}
	gens := []func(string) string{nil,
		func(s string) string { return s + "^" },
		func(s string) string { return s }, // a generator that gives up: returns its input
		func(s string) string {
			if len(s) > 3 {
				return s[:len(s)-1]
			}
			return s + "x"
		},
		func(s string) string {
			statefulN++
			out := fmt.Sprintf("alt%d%s", statefulN, s[:1])
			derived[s] = append(derived[s], out)
			return out
		}}
	gen := gens[genKind]
	genRef := gen
	if genRef == nil {
		genRef = client.DefaultNewNick
	}
	stateful := genKind == 4
	nickAlpha := "abcxyzABCXYZ0189_[]{}|`^-\\"
	want := g.Str(nickAlpha, 1, 9)
	if want[0] >= '0' && want[0] <= '9' || want[0] == '-' {
		want = "n" + want
	}
	// DefaultNewNick over a seeded sample plus every refused nick seen
	for k := 0; k < 12; k++ {
		in := g.Str(nickAlpha+"~!. 9}z", 1, 12)
		out := client.DefaultNewNick(in)
		e.Check()
		if bad := refDefaultNewNickOK(in, out); bad != "" {
			e.Violation("default-generator", "DefaultNewNick(%q) = %q: %s", in, out, bad)
			return
		}
	}
	// ... and over every possible last byte (16 per run, all 256 within 16 runs)
	for k := 0; k < 16; k++ {
		in := []string{"n", "nick", "Beyonc\xc3"}[g.Intn(3)] + string([]byte{byte((e.Idx*16 + k) % 256)})
		out := client.DefaultNewNick(in)
		e.Check()
		if bad := refDefaultNewNickOK(in, out); bad != "" {
			e.Violation("default-generator", "DefaultNewNick(%q) = %q: %s", in, out, bad)
			return
		}
	}
	pre433 := g.W(4, 3, 2, 1)
	welcomeForm := g.W(3, 2, 1)
	welcomeDifferent := g.W(6, 2, 1, 2) // 0 same, 1 truncated, 2 unrelated, 3 same letters in another case
	nEvents := g.Range(0, 10)
	type ev struct{ kind, arg int }
	var evs []ev
	for i := 0; i < nEvents; i++ {
		evs = append(evs, ev{g.W(3, 3, 3, 3, 1), g.Intn(1000)})
	}
	e.Notef("track=%v generator=%s requested=%q 433-before-welcome=%d welcome=%s events=%d", track, []string{"default", "append ^", "identity", "shorten", "stateful fallback list"}[genKind], want, pre433,
		[]string{"same nick", "truncated", "unrelated", "other letter case"}[welcomeDifferent], nEvents)

	var serverNick string // the nick the server currently uses for the client ("" before the welcome)
	var l *simnet.Link
	var lines []string
	pos := 0
	next := func(d time.Duration) (string, bool) {
		// next client line (skipping MODE/WHO queries of the tracker)
		for {
			if pos < len(lines) {
				ln := lines[pos]
				pos++
				if strings.HasPrefix(ln, "MODE ") || strings.HasPrefix(ln, "WHO ") || strings.HasPrefix(ln, "PONG ") {
					continue
				}
				return ln, true
			}
			ln, ok := l.RecvLineFor(d)
			if !ok {
				return "", false
			}
			lines = append(lines, strings.TrimRight(ln, "\r\n"))
		}
	}
	connNo := 0
	joined := false
	stage := "start"
	serverDone := false
	var c *client.Conn
	others := []string{}
	// joinChannel puts the client on a channel with the other users (tracking):
	// done only after the first checkpoint, because the JOIN handler calls Me(),
	// which would refresh Config().Me and hide a stale or nil value
	joinChannel := func() {
		if track && !joined && serverNick != "" {
			joined = true
			l.SendLine(":" + serverNick + "!ident@host.sim JOIN #n")
			l.SendLine(":irc.sim 353 " + serverNick + " = #n :" + serverNick + " " + strings.Join(others, " "))
			l.SendLine(":irc.sim 366 " + serverNick + " #n :End")
			simrt.Settle(20 * time.Second)
		}
	}
	checkpoint := func(where string) bool {
		simrt.Settle(20 * time.Second)
		cm := c.Config().Me // sampled before Me(), which refreshes it
		e.Check()
		if cm == nil {
			e.Violation("config-me-nil", "%s: Config().Me is nil (the server uses %q)", where, serverNick)
			return false
		}
		me := c.Me()
		if me == nil {
			e.Violation("me-nil", "%s: Me() is nil", where)
			return false
		}
		if serverNick != "" && me.Nick != serverNick {
			e.Violation("wrong-nick", "%s: Me().Nick=%q but the server currently uses %q for the client", where, me.Nick, serverNick)
			return false
		}
		return true
	}
	expectNick := func(refused string, where string) (string, bool) {
		ln, ok := next(10 * time.Minute)
		if stateful {
			e.Check()
			for _, d := range derived[refused] {
				if ok && ln == "NICK "+d {
					return d, true
				}
			}
			e.Violation("collision-answer", "%s: nick %q was refused; the client answered %q, which is none of the nicks the configured generator returned for it (%q)", where, refused, ln, derived[refused])
			return "", false
		}
		wantLine := "NICK " + genRef(refused)
		e.Check()
		if !ok || ln != wantLine {
			e.Violation("collision-answer", "%s: nick %q was refused; the client answered %q, want %q (the configured generator applied to the refused nick)", where, refused, ln, wantLine)
			return "", false
		}
		if gen == nil {
			if bad := refDefaultNewNickOK(refused, genRef(refused)); bad != "" {
				e.Violation("default-generator", "DefaultNewNick(%q) = %q: %s", refused, genRef(refused), bad)
				return "", false
			}
		}
		return strings.TrimPrefix(ln, "NICK "), true
	}
	e.LinkPlan = func(l *simnet.Link) { l.ChunkMode = g.Intn(4) }
	script := func() {
		// registration
		var pending string
		for {
			ln, ok := next(time.Hour)
			if !ok {
				return
			}
			if strings.HasPrefix(ln, "NICK ") {
				pending = strings.TrimPrefix(ln, "NICK ")
			}
			if strings.HasPrefix(ln, "USER ") {
				break
			}
		}
		n433 := pre433
		if connNo > 1 {
			n433 = g.S.Choose(2)
		}
		for k := 0; k < n433; k++ {
			e.S.Count("fault.nick-collision-before-welcome")
			l.SendLine(":irc.sim 433 * " + pending + []string{" :Nickname is already in use.", " :Nickname is already in use.", "", " :", " in-use"}[g.S.Choose(5)])
			p, ok := expectNick(pending, "during registration")
			if !ok {
				return
			}
			pending = p
		}
		final := pending
		if connNo == 1 {
			switch welcomeDifferent {
			case 1:
				if len(final) > 2 {
					final = final[:len(final)-1]
				}
			case 2:
				final = "Guest" + fmt.Sprint(100+g.S.Choose(900))
			case 3:
				// the server knows the nick in its registered spelling
				b := []byte(final)
				for i, c := range b {
					switch {
					case c >= 'a' && c <= 'z' && (i == 0 || g.S.Choose(2) == 0):
						b[i] = c - 32
					case c >= 'A' && c <= 'Z' && (i == 0 || g.S.Choose(2) == 0):
						b[i] = c + 32
					}
				}
				final = string(b)
			}
		}
		serverNick = final
		// servers differ in whether the welcome text ends in nick!user@host
		switch welcomeForm {
		case 0:
			l.SendLine(":irc.sim 001 " + final + " :Welcome to the sim " + final + "!ident@host.sim")
		case 1:
			l.SendLine(":irc.sim 001 " + final + " :Welcome to the Internet Relay Network " + final)
		default:
			l.SendLine(":irc.sim 001 " + final + " :Welcome")
		}
		others = []string{final + "_", final[:len(final)/2+1] + "~o", "zed"}
		joined = false
		stage = "welcomed"
	}
	e.OnDial = func(nl *simnet.Link) {
		l = nl
		lines, pos = nil, 0
		connNo++
		serverDone = false
		e.S.Spawn(fmt.Sprintf("server%d", connNo), func() {
			script()
			serverDone = true
		})
	}
	// "the configured generator" is whatever Config().NewNick holds when a
	// collision is answered: applications also install theirs once they have the
	// client in hand
	lateGen := gen != nil && g.Pct(40)
	if lateGen {
		c = NewClient(g.Knobs(ClientOpts{Nick: want, Flood: true, Track: track}))
		c.Config().NewNick = gen
		e.S.Count("probe.generator-installed-after-the-client-was-created")
	} else {
		c = NewClient(g.Knobs(ClientOpts{Nick: want, Flood: true, Track: track, NewNick: gen}))
	}
	discs := 0
	c.HandleFunc(client.DISCONNECTED, func(*client.Conn, *client.Line) { discs++ })
	if err := c.Connect(); err != nil {
		e.Violation("harness-connect", "Connect: %v", err)
		return
	}
	if !simrt.BlockFor("nick", "registration script", time.Hour, func() bool { return serverDone || e.S.Failed() }) || stage != "welcomed" {
		if !e.S.Failed() {
			e.Violation("registration-stuck", "registration did not complete\n%s", e.S.TaskDump())
		}
		return
	}
	if !checkpoint("after the welcome") {
		return
	}
	joinChannel()
	uniq := 0
	// an application may switch state tracking off and on again in mid-session
	// (the tracker then starts afresh, knowing just the client): who the client
	// is does not depend on it
	toggles, trackOn := g.Pct(25), track
	if toggles {
		e.S.Count("probe.tracking-switched-off-and-on-in-mid-session")
	}
	for i, x := range evs {
		if e.S.Failed() {
			return
		}
		if toggles && g.S.Choose(3) == 0 {
			if trackOn {
				c.DisableStateTracking()
			} else {
				c.EnableStateTracking()
			}
			trackOn = !trackOn
			if !checkpoint(fmt.Sprintf("before event %d, tracking just switched %s", i, map[bool]string{true: "on", false: "off"}[trackOn])) {
				return
			}
		}
		uniq++
		where := fmt.Sprintf("event %d", i)
		switch x.kind {
		case 0: // client asks for a new nick, confirmed
			z := fmt.Sprintf("%sn%d", strings.TrimRight(serverNick, "0123456789"), uniq)
			for _, o := range others {
				if o == z {
					z += "q" // a server never confirms a nick that is in use
				}
			}
			c.Nick(z)
			ln, ok := next(10 * time.Minute)
			if !ok || ln != "NICK "+z {
				e.Violation("harness", "expected NICK %s, got %q", z, ln)
				return
			}
			l.SendLine(":" + serverNick + "!ident@host.sim NICK " + z)
			serverNick = z
			where += " (client NICK confirmed)"
		case 1: // client asks, refused 1-2 times, then confirmed
			z := fmt.Sprintf("tk%dq", uniq)
			// the refused nick may resemble the current one: a proper prefix of it
			// (a bot on foo_ trying to regain foo), an extension, another letter case
			switch x.arg % 5 {
			case 1:
				if len(serverNick) > 1 {
					z = serverNick[:len(serverNick)-1]
				}
			case 2:
				z = serverNick + "_x"
			case 3:
				if up := strings.ToUpper(serverNick); up != serverNick {
					z = up
				}
			}
			// a conformant server never confirms a nick that is in use: the whole
			// chain the generator can produce from z must stay clear of the others
			chainOK := func(z string) bool {
				n := z
				for i := 0; i < 4; i++ {
					for _, o := range others {
						if o == n {
							return false
						}
					}
					if stateful {
						break // its nicks (altN...) are fresh by construction; asking it would advance it
					}
					n = genRef(n)
				}
				return z != serverNick
			}
			if !chainOK(z) {
				z = fmt.Sprintf("tk%dq", uniq)
			}
			// (an application may also word the request itself: what the server
			// refuses is answered the same way)
			if x.arg%3 == 0 {
				c.Raw("NICK " + z)
			} else {
				c.Nick(z)
			}
			ln, ok := next(10 * time.Minute)
			if !ok || ln != "NICK "+z {
				e.Violation("harness", "expected NICK %s, got %q", z, ln)
				return
			}
			cur := z
			for k := 1 + x.arg%2; k > 0; k-- {
				if cur == serverNick {
					break // the generator led back to the client's own nick: a no-op for the server
				}
				e.S.Count("fault.nick-refused-after-welcome")
				l.SendLine(":irc.sim 433 " + serverNick + " " + cur + []string{" :Nickname is already in use.", " :Nickname is already in use.", "", " :", " in-use"}[g.S.Choose(5)])
				p, ok := expectNick(cur, where+" (client NICK refused)")
				if !ok {
					return
				}
				// while refused, the client's nick is unchanged
				if !checkpoint(where + " (while the requested nick is refused)") {
					return
				}
				cur = p
			}
			if cur != serverNick {
				l.SendLine(":" + serverNick + "!ident@host.sim NICK " + cur)
				serverNick = cur
			}
			where += " (client NICK refused then confirmed)"
		case 2: // forced by the server
			f := fmt.Sprintf("Forced%d", uniq)
			if x.arg%6 == 0 {
				f = serverNick // a NICK line that changes nothing (services re-asserting the nick)
			}
			e.S.Count("fault.server-forced-nick")
			l.SendLine(":" + serverNick + "!ident@host.sim NICK " + f)
			serverNick = f
			where += " (server-forced NICK)"
		case 3: // another user's nick change, to and from look-alike names
			if len(others) > 0 {
				k := x.arg % len(others)
				neu := []string{serverNick + "_", serverNick + "-", strings.ToUpper(serverNick) + "U" + fmt.Sprint(uniq), serverNick[:1] + "_" + fmt.Sprint(uniq)}[x.arg%4]
				if neu != serverNick {
					dup := false
					for _, o := range others {
						if o == neu {
							dup = true
						}
					}
					if !dup {
						// (another user may well share the client's user@host: a second
						// bot on the same machine, users behind one gateway)
						l.SendLine(":" + others[k] + "!" + []string{"o@h", "ident@host.sim"}[g.S.Choose(2)] + " NICK " + neu)
						others[k] = neu
					}
				}
			}
			where += " (another user's NICK)"
		default: // reconnect
			stage = "reconnecting"
			d0 := discs
			l.CloseByServer()
			simrt.BlockFor("nick", "disconnect", time.Hour, func() bool { return discs > d0 })
			simrt.Settle(5 * time.Second)
			serverNick = ""
			if err := c.Connect(); err != nil {
				e.Violation("harness-connect", "reconnect: %v", err)
				return
			}
			if !simrt.BlockFor("nick", "registration script", time.Hour, func() bool { return serverDone || e.S.Failed() }) || stage != "welcomed" {
				if !e.S.Failed() {
					e.Violation("registration-stuck", "registration after reconnect did not complete (client lines: %q)\n%s", lines, e.S.TaskDump())
				}
				return
			}
			where += " (reconnect)"
			if !checkpoint("after " + where) {
				return
			}
			joinChannel()
		}
		if !checkpoint("after " + where) {
			return
		}
	}
	c.Close()
}

// ---------------------------------------------------------------------------
// C18: registration and keep-alive follow the protocol

// peer is the server's view of one connection in W-reg: plaintext straight on
// the simulated link, or through a real crypto/tls server behind it.
type peer struct {
	e     *Env
	l     *simnet.Link
	tc    *tls.Conn
	lines []string
	pos   int
	eof   bool
	hsErr error
	hsOK  bool
}

func (p *peer) send(line string) {
	if p.tc != nil {
		p.tc.Write([]byte(line + "\r\n"))
		return
	}
	p.l.SendLine(line)
}

// recvFor returns the next client line within d of simulated time.
func (p *peer) recvFor(d time.Duration) (string, bool) {
	if p.tc == nil {
		ln, ok := p.l.RecvLineFor(d)
		return strings.TrimRight(ln, "\r\n"), ok
	}
	if p.pos >= len(p.lines) && !p.eof {
		simrt.BlockFor("reg.peer", "decrypted client line", d, func() bool { return p.pos < len(p.lines) || p.eof })
	}
	if p.pos < len(p.lines) {
		p.pos++
		return p.lines[p.pos-1], true
	}
	return "", false
}

func (p *peer) hangup() {
	if p.tc != nil {
		p.l.CloseByServer()
		return
	}
	p.l.CloseByServer()
}

var tlsCertCache *tls.Certificate

func simTLSConfig() *tls.Config {
	if tlsCertCache == nil {
		pub, priv, err := ed25519.GenerateKey(crand.Reader)
		if err != nil {
			panic(err)
		}
		tmpl := &x509.Certificate{SerialNumber: big.NewInt(1), Subject: pkix.Name{CommonName: "irc.sim"},
			NotBefore: time.Unix(0, 0), NotAfter: time.Date(2100, 1, 1, 0, 0, 0, 0, time.UTC), KeyUsage: x509.KeyUsageDigitalSignature,
			ExtKeyUsage: []x509.ExtKeyUsage{x509.ExtKeyUsageServerAuth}}
		der, err := x509.CreateCertificate(crand.Reader, tmpl, tmpl, pub, priv)
		if err != nil {
			panic(err)
		}
		tlsCertCache = &tls.Certificate{Certificate: [][]byte{der}, PrivateKey: priv}
	}
	return &tls.Config{Certificates: []tls.Certificate{*tlsCertCache}, MinVersion: tls.VersionTLS13}
}

// regFlap: the server accepts the connection and hangs up at once; a
// DISCONNECTED handler reconnects immediately (the documented way to
// reconnect).  The second connection must open with exactly its own
// registration.  The first Connect may still be dispatching REGISTER when the
// handler has already reconnected.
func regFlap(e *Env, g G) {
	nick := "flap" + g.Str(lower, 1, 3)
	pass := []string{"", "pw" + g.Str(alnum, 1, 6)}[g.Intn(2)]
	capNeg, track := g.Bool(), g.Bool()
	cfg := client.NewConfig(nick, "ident", "Real Name")
	cfg.Pass = pass
	cfg.EnableCapabilityNegotiation = capNeg
	cfg.Server = "irc.sim"
	cfg.Proxy = "sim://p"
	cfg.Flood = true
	cfg.PingFreq = 0
	c := client.Client(cfg)
	if track {
		c.EnableStateTracking()
	}
	var wantReg []string
	if capNeg {
		wantReg = append(wantReg, "CAP LS")
	}
	if pass != "" {
		wantReg = append(wantReg, "PASS "+pass)
	}
	wantReg = append(wantReg, "NICK "+nick, "USER ident 12 * :Real Name")
	e.Notef("flapping server: pass=%v capneg=%v track=%v", pass != "", capNeg, track)
	e.S.Count("fault.server-hangs-up-at-accept-then-reconnect-from-handler")
	var links []*simnet.Link
	e.LinkPlan = func(l *simnet.Link) { l.ChunkMode = g.Intn(4) }
	e.OnDial = func(l *simnet.Link) {
		links = append(links, l)
		if len(links) == 1 {
			e.S.Spawn("flapper", func() {
				for k := e.S.Choose(3) * e.S.Choose(40); k > 0; k-- {
					simrt.Sleep(0)
				}
				l.CloseByServer()
			})
		}
	}
	reconnected, handlerDone := false, false
	var err2 error
	c.HandleFunc(client.DISCONNECTED, func(*client.Conn, *client.Line) {
		if reconnected {
			return
		}
		reconnected = true
		err2 = c.Connect()
		handlerDone = true
	})
	connectReturned := false
	e.S.Spawn("connector", func() {
		c.Connect()
		connectReturned = true
	})
	if !simrt.BlockFor("flap", "the first Connect and the reconnecting DISCONNECTED handler to return", time.Hour, func() bool { return handlerDone && connectReturned }) {
		e.Violation("flap-stuck", "the server hung up right after accepting; first Connect returned=%v, DISCONNECTED handler (which reconnects) returned=%v\n%s", connectReturned, handlerDone, e.S.TaskDump())
		return
	}
	if err2 != nil || len(links) != 2 {
		e.Violation("flap-reconnect", "Connect from the DISCONNECTED handler returned %v after %d dials", err2, len(links))
		return
	}
	simrt.Settle(30 * time.Second)
	var got []string
	for {
		ln, ok := links[1].TryRecvLine()
		if !ok {
			break
		}
		got = append(got, strings.TrimRight(ln, "\r\n"))
	}
	e.Check()
	if strings.Join(got, "\n") != strings.Join(wantReg, "\n") {
		// is it the second connection's own registration plus lines of the
		// first Connect's REGISTER dispatch, and nothing else?
		isReg := map[string]bool{}
		for _, w := range wantReg {
			isReg[w] = true
		}
		k, onlyReg := 0, true
		for _, ln := range got {
			if k < len(wantReg) && ln == wantReg[k] {
				k++
			}
			if !isReg[ln] {
				onlyReg = false
			}
		}
		if onlyReg && k == len(wantReg) && len(got) > len(wantReg) {
			e.Violation("registration-lines-of-the-dead-connection", "the server hung up right after accepting and a DISCONNECTED handler reconnected at once: the second connection opened with %q, want exactly %q (the extra lines were sent by the REGISTER handler of the first Connect, which was still running)", got, wantReg)
			return
		}
		e.Violation("registration-lines", "the server hung up right after accepting and a DISCONNECTED handler reconnected at once: the second connection opened with %q, want exactly %q", got, wantReg)
		return
	}
	c.Close()
}

func regRun(e *Env) {
	g := G{e.S}
	if g.Pct(12) {
		regFlap(e, g)
		return
	}
	nick := g.Str(alnum[:52], 1, 9)
	// (an ident is sent as configured, whatever it looks like: "~bot" is what a
	// server without identd reports, and what an application may copy back)
	ident := []string{"", "ident", "a", "~bot", "~", "i-d_e.n^t"}[g.Intn(6)]
	// (free text is sent as configured, blanks at its end included)
	// (... and octets that are not UTF-8: a Latin-1 name, a binary password)
	name := []string{"", "Real Name", "x", "name with : colon", "Trailing Blank ", "tab at the end\t", "Jos\xe9 Mu\xf1oz", "\u65e5\u672c"}[g.Intn(8)]
	pass := []string{"", "", "secret", "p:w", "with space", "blank at the end ", "p\xe4ss\xff\xfe"}[g.Intn(7)]
	capNeg := g.Pct(30)
	sslMode := g.W(7, 1, 2) // 0 plain, 1 SSL with nothing behind the socket (handshake fails), 2 SSL with a real TLS server
	ssl := sslMode != 0
	servers := []string{"irc.sim", "irc.sim:7000", "irc.sim:6667", "[::1]", "[::1]:6697", "[2001:db8::1]:9999", "10.0.0.1", "10.0.0.1:1"}
	server := servers[g.Intn(len(servers))]
	pingFreq := []time.Duration{-time.Second, 0, 0, 20 * time.Second, 3 * time.Minute, 45 * time.Second}[g.Intn(6)]
	track := g.Bool()
	ctxDial := g.Bool()
	// the rule of the statement: the configured address, with the default port
	// added only when none was given
	wantAddr := server
	if !(strings.LastIndex(server, ":") > strings.LastIndex(server, "]")) {
		port := "6667"
		if ssl {
			port = "6697"
		}
		wantAddr = server + ":" + port
	}
	e.Notef("nick=%q ident=%q name=%q pass=%v capneg=%v ssl=%s server=%q ping=%v track=%v", nick, ident, name, pass != "", capNeg,
		[]string{"off", "on, handshake fails", "on, real TLS server"}[sslMode], server, pingFreq, track)

	cfg := client.NewConfig(nick, ident, name)
	cfg.Pass = pass
	cfg.EnableCapabilityNegotiation = capNeg
	cfg.SSL = ssl
	if sslMode == 2 {
		cfg.SSLConfig = &tls.Config{InsecureSkipVerify: true}
	}
	cfg.Server = server
	cfg.PingFreq = pingFreq
	cfg.Flood = g.Bool()
	// the dial timeout plays no part in what is registered: the default, "wait
	// indefinitely" (0), short and long ones
	if tmo := []time.Duration{-1, -1, -1, 0, time.Second, 10 * time.Minute}[g.Intn(6)]; tmo >= 0 {
		cfg.Timeout = tmo
	}
	if ctxDial {
		cfg.Proxy = "simctx://p"
	} else {
		cfg.Proxy = "sim://p"
	}
	// the configuration may still be changed through Config() after the client
	// has been created: SSL is sometimes only decided then
	lateSSL := g.Pct(20)
	if lateSSL {
		cfg.SSL = !ssl
		e.S.Count("probe.ssl-decided-after-client-creation")
	}
	c := client.Client(cfg)
	if lateSSL {
		c.Config().SSL = ssl
	}
	if track {
		c.EnableStateTracking()
	}
	discs := 0
	c.HandleFunc(client.DISCONNECTED, func(*client.Conn, *client.Line) { discs++ })
	earlyCmd := sslMode != 1 && g.Pct(20)
	if earlyCmd {
		c.HandleFunc(client.REGISTER, func(c *client.Conn, l *client.Line) { c.Join("#early") })
	}
	wantIdent, wantName := ident, name
	if wantIdent == "" {
		wantIdent = "goirc"
	}
	if wantName == "" {
		wantName = "Powered by GoIRC"
	}
	curNick := nick
	nConns := g.Range(1, 3)
	type tokT struct{ send, want string }
	toks := []tokT{{":tok", "tok"}, {":with space", "with space"}, {"plain", "plain"}, {":", ""}, {"::colon", ":colon"}, {":a :b", "a :b"},
		{":" + strings.Repeat("L", 480), strings.Repeat("L", 480)}, {":12345", "12345"},
		{":" + strings.Repeat("M", 507), strings.Repeat("M", 507)}, {":" + strings.Repeat("N", 600) + " end", strings.Repeat("N", 600) + " end"},
		{":" + strings.Repeat("O", 5000), strings.Repeat("O", 5000)},
		{":abc ", "abc "}, {":   ", "   "}, {":tab\t", "tab\t"}, {": lead and trail  ", " lead and trail  "},
		{":caf\xe9 \xff\xfe\x80", "caf\xe9 \xff\xfe\x80"}, {":\u65e5\u672c\U0001F60A", "\u65e5\u672c\U0001F60A"},
		{":100%", "100%"}, {":50%done %s %d %v", "50%done %s %d %v"}, {":%!(NOVERB)%%", "%!(NOVERB)%%"}, {"a%20b", "a%20b"}}
	slowServer := sslMode == 0 && g.Pct(40)
	e.LinkPlan = func(l *simnet.Link) {
		l.ChunkMode = g.Intn(4)
		l.Opaque = sslMode == 2
		if slowServer {
			// the server reads only now and then: the client's writes block on a
			// full window, in the middle of a line
			l.Window = []int{16, 64, 300}[g.Intn(3)]
		}
	}
	var p *peer
	var got []string // client lines of the current connection
	connNo := 0
	recvAll := func(d time.Duration) {
		for {
			ln, ok := p.recvFor(d)
			if !ok {
				return
			}
			got = append(got, ln)
		}
	}
	// some servers send a PING "cookie" the moment they accept the connection,
	// before NICK/USER have arrived: it is a PING with a token like any other
	cookie := sslMode == 0 && g.Pct(35)
	cookiePongs := 0
	takeCookiePongs := func() {
		kept := got[:0]
		for _, ln := range got {
			if ln == fmt.Sprintf("PONG :cookie-%d", connNo) {
				cookiePongs++
				continue
			}
			kept = append(kept, ln)
		}
		got = kept
	}
	e.OnDial = func(nl *simnet.Link) {
		got = nil
		connNo++
		cookiePongs = 0
		p = &peer{e: e, l: nl}
		if cookie {
			no := connNo
			e.S.Count("fault.ping-cookie-at-accept")
			e.S.Spawn(fmt.Sprintf("cookie-pinger%d", no), func() {
				for k := e.S.Choose(3) * e.S.Choose(40); k > 0; k-- {
					simrt.Sleep(0)
				}
				nl.SendLine(fmt.Sprintf("PING :cookie-%d", no))
			})
		}
		switch sslMode {
		case 1:
			// no TLS server behind the simulated socket: the handshake fails and
			// Connect must return the error; the dial address rule still shows
			nl.CloseByServer()
		case 2:
			pp := p
			pp.tc = tls.Server(&simnet.ServerConn{L: nl}, simTLSConfig())
			e.S.Count("probe.tls-server-behind-the-socket")
			e.S.Spawn(fmt.Sprintf("tls-server%d", connNo), func() {
				if err := pp.tc.Handshake(); err != nil {
					pp.hsErr = err
					pp.eof = true
					return
				}
				pp.hsOK = true
				buf := make([]byte, 0, 4096)
				tmp := make([]byte, 2048)
				for {
					n, err := pp.tc.Read(tmp)
					buf = append(buf, tmp[:n]...)
					for {
						i := strings.IndexByte(string(buf), '\n')
						if i < 0 {
							break
						}
						pp.lines = append(pp.lines, strings.TrimRight(string(buf[:i]), "\r"))
						buf = buf[i+1:]
					}
					if err != nil {
						pp.eof = true
						return
					}
				}
			})
		}
	}
	for conn := 1; conn <= nConns && !e.S.Failed(); conn++ {
		var err error
		if conn > 1 && g.S.Choose(2) == 0 {
			// the application moves on to another server of its list
			server = servers[g.S.Choose(len(servers))]
			wantAddr = server
			if !(strings.LastIndex(server, ":") > strings.LastIndex(server, "]")) {
				port := "6667"
				if ssl {
					port = "6697"
				}
				wantAddr = server + ":" + port
			}
			e.S.Count("probe.server-changed-between-connections")
			if g.S.Choose(2) == 0 {
				c.Config().Server = server
				err = c.Connect()
			} else {
				err = c.ConnectTo(server)
			}
		} else {
			err = c.Connect()
		}
		e.Check()
		if len(e.Dials) != conn {
			e.Violation("dial", "Connect #%d dialled %d times", conn, len(e.Dials)-conn+1)
			return
		}
		if e.Dials[conn-1] != wantAddr {
			e.Violation("dial-address", "configured server %q (ssl=%v): dialled %q, want %q", server, ssl, e.Dials[conn-1], wantAddr)
			return
		}
		if sslMode == 1 {
			if err == nil {
				e.Violation("ssl-handshake", "Connect returned nil although the TLS handshake cannot have succeeded")
			}
			return
		}
		if err != nil {
			e.Violation("harness-connect", "Connect: %v (tls handshake error on the server side: %v)", err, p.hsErr)
			return
		}
		// registration lines: read until USER
		deadline := 5 * time.Minute
		for {
			ln, ok := p.recvFor(deadline)
			if !ok {
				break
			}
			got = append(got, ln)
			if strings.HasPrefix(ln, "USER ") {
				break
			}
		}
		takeCookiePongs()
		var wantReg []string
		if capNeg {
			wantReg = append(wantReg, "CAP LS")
		}
		if pass != "" {
			wantReg = append(wantReg, "PASS "+pass)
		}
		wantReg = append(wantReg, "NICK "+curNick, "USER "+wantIdent+" 12 * :"+wantName)
		e.Check()
		if strings.Join(got, "\n") != strings.Join(wantReg, "\n") {
			e.Violation("registration-lines", "connection %d: the client opened with %q, want exactly %q", conn, got, wantReg)
			return
		}
		if earlyCmd {
			// the application's REGISTER handler sends a command of its own before
			// the welcome: the server says so and carries on with the registration
			ln, ok := p.recvFor(5 * time.Minute)
			for ok && strings.HasPrefix(ln, "PONG :cookie-") {
				// (the answer to the PING this server sent on accepting the connection)
				got = append(got, ln)
				ln, ok = p.recvFor(5 * time.Minute)
			}
			got = append(got, ln)
			e.Check()
			if !ok || ln != "JOIN #early" {
				e.Violation("registration-lines", "connection %d: after the registration the REGISTER handler's JOIN #early was expected, got %q", conn, ln)
				return
			}
			p.send(":irc.sim 451 * :You have not registered")
			e.S.Count("probe.server-answers-an-early-command-with-451")
		}
		if capNeg {
			p.send(":irc.sim CAP * LS :")
		}
		p.send(":irc.sim 001 " + curNick + " :Welcome " + curNick + "!" + wantIdent + "@host.sim")
		if track {
			p.send(":" + curNick + "!" + wantIdent + "@host.sim JOIN #r")
			p.send(":irc.sim 353 " + curNick + " = #r :" + curNick + " @op")
		}
		simrt.Settle(30 * time.Second)
		recvAll(time.Second)
		takeCookiePongs()
		e.Check()
		if cookie && cookiePongs != 1 {
			e.Violation("pong", "connection %d: the server's PING :cookie-%d, sent as soon as it accepted the connection, was answered %d times (client wrote %s)", conn, connNo, cookiePongs, clipq(got))
			return
		}
		// nothing of the registration is repeated
		for _, ln := range got[len(wantReg):] {
			for _, pf := range []string{"PASS ", "NICK ", "USER ", "CAP LS"} {
				if strings.HasPrefix(ln, pf) {
					e.Violation("registration-repeated", "connection %d: %q sent again after registration (%q)", conn, pf, got)
					return
				}
			}
		}
		// server PINGs, interleaved with other traffic, answered in order
		before := len(got)
		var wantPongs []string
		np := g.S.Choose(6)
		// "interleaved with any other traffic": the client is sending lines of
		// its own while the PINGs arrive
		nChat := 0
		floodBudget := time.Duration(0)
		chatDone := true
		if g.S.Choose(2) == 0 {
			nChat = 1 + g.S.Choose(30)
			chatDone = false
			conn := conn
			e.S.Spawn(fmt.Sprintf("chatter%d", conn), func() {
				for k := 0; k < nChat; k++ {
					c.Privmsg("#r", fmt.Sprintf("chat %d.%d", conn, k))
					if e.S.Choose(3) == 0 {
						simrt.Sleep(time.Duration(e.S.Choose(50)) * time.Millisecond)
					}
				}
				chatDone = true
			})
		}
		for k := 0; k < np; k++ {
			t := toks[g.S.Choose(len(toks))]
			p.send("PING " + t.send)
			wantPongs = append(wantPongs, "PONG :"+t.want)
			floodBudget += 4*time.Second + time.Duration(len(t.want))*time.Second/100 // its charge under flood protection
			if g.S.Choose(2) == 0 {
				p.send(":op!o@h PRIVMSG " + curNick + " :noise")
			}
			if g.S.Choose(3) == 0 {
				simrt.Sleep(time.Duration(e.S.Choose(100)) * time.Millisecond)
			}
		}
		// read slowly until everything expected has arrived (7 s per line covers
		// every flood delay)
		wantLines := np + nChat
		deadlineAt := e.S.Now() + time.Duration(nChat+4)*8*time.Second + floodBudget + 30*time.Second
		count := func() int {
			n := 0
			for _, ln := range got[before:] {
				if strings.HasPrefix(ln, "PONG") || strings.HasPrefix(ln, "PRIVMSG #r :chat ") {
					n++
				}
			}
			return n
		}
		for (count() < wantLines || !chatDone) && e.S.Now() < deadlineAt {
			recvAll(500 * time.Millisecond)
			simrt.Sleep(200 * time.Millisecond)
		}
		simrt.Settle(5 * time.Second)
		recvAll(time.Second)
		var pongs, chats []string
		for _, ln := range got[before:] {
			switch {
			case strings.HasPrefix(ln, "PONG"):
				pongs = append(pongs, ln)
			case strings.HasPrefix(ln, "PRIVMSG #r :chat "):
				chats = append(chats, ln)
			case strings.HasPrefix(ln, "MODE ") || strings.HasPrefix(ln, "WHO ") || strings.HasPrefix(ln, "PING :"):
			default:
				e.Violation("garbage-on-the-wire", "connection %d: while answering PINGs among other traffic the client wrote %q", conn, clip(ln))
				return
			}
		}
		e.Check()
		// (each PING answered once with its own token; the statement does not
		// say in which order the answers leave)
		sp, sw := append([]string{}, pongs...), append([]string{}, wantPongs...)
		sort.Strings(sp)
		sort.Strings(sw)
		if strings.Join(sp, "\n") != strings.Join(sw, "\n") {
			e.Violation("pong", "connection %d: server PINGs were answered by %s, want %s (the client was sending %d lines of its own meanwhile; connected=%v)", conn, clipq(pongs), clipq(wantPongs), nChat, discs == 0)
			return
		}
		for k, ln := range chats {
			if ln != fmt.Sprintf("PRIVMSG #r :chat %d.%d", conn, k) {
				e.Violation("garbage-on-the-wire", "connection %d: the client's own line %d arrived as %q", conn, k, clip(ln))
				return
			}
		}
		if len(chats) != nChat {
			e.Violation("garbage-on-the-wire", "connection %d: %d of the client's own %d lines arrived while it was answering PINGs", conn, len(chats), nChat)
			return
		}
		// own PINGs over an idle stretch.  Lines delayed by flood protection
		// (queued pings among them) must have drained first: wait until the
		// client has been silent for 7 s (longer than any hold of a short line,
		// shorter than any PingFreq used here)
		for quietSince, n0 := e.S.Now(), len(got); e.S.Now()-quietSince < 7*time.Second; {
			simrt.Sleep(500 * time.Millisecond)
			recvAll(time.Millisecond)
			if len(got) != n0 {
				n0, quietSince = len(got), e.S.Now()
			}
		}
		before = len(got)
		D := []time.Duration{time.Minute, 10 * time.Minute, 37 * time.Minute}[g.S.Choose(3)]
		t0 := e.S.Now()
		// the server may be pinging the client all the while, more often than the
		// client pings: the client's own PINGs keep their period regardless
		srvPing := time.Duration(0)
		if g.S.Choose(3) == 0 {
			base := pingFreq
			if base <= 0 {
				base = 30 * time.Second
			}
			srvPing = base / time.Duration(2+g.S.Choose(4))
			e.S.Count("fault.server-pings-more-often-than-the-client")
		}
		if slowServer || srvPing > 0 {
			// keep draining so that the window never stalls the client's pinger
			step := 5 * time.Second
			if srvPing > 0 && srvPing < step {
				step = srvPing
			}
			nextPing := t0
			for e.S.Now()-t0 < D {
				if srvPing > 0 && e.S.Now() >= nextPing {
					p.send(fmt.Sprintf("PING :srv-%d", int(e.S.Now()/time.Second)))
					nextPing += srvPing
				}
				simrt.Sleep(step)
				recvAll(time.Millisecond)
			}
			simrt.Settle(10 * time.Second)
		} else {
			simrt.Sleep(D)
		}
		recvAll(time.Millisecond)
		elapsed := e.S.Now() - t0
		pings := 0
		for _, ln := range got[before:] {
			if strings.HasPrefix(ln, "PING :") {
				pings++
			} else if srvPing > 0 && strings.HasPrefix(ln, "PONG :srv-") {
			} else if !strings.HasPrefix(ln, "MODE ") && !strings.HasPrefix(ln, "WHO ") {
				e.Violation("idle-traffic", "connection %d: unexpected line while idle: %q", conn, clip(ln))
				return
			}
		}
		e.Check()
		if pingFreq <= 0 {
			if pings != 0 {
				e.Violation("ping-when-disabled", "PingFreq=%v but the client sent %d PINGs in %v", pingFreq, pings, elapsed)
				return
			}
		} else {
			exp := int(elapsed / pingFreq)
			if pings < exp-1 || pings > exp+1 {
				e.Violation("ping-frequency", "PingFreq=%v: %d PINGs in an idle stretch of %v, want %d +- 1", pingFreq, pings, elapsed, exp)
				return
			}
		}
		// the nick changes before the next connection (server-forced or by the client)
		if conn < nConns {
			neu := fmt.Sprintf("%s%d", nick, conn)
			if g.S.Choose(2) == 0 {
				c.Nick(neu)
				simrt.Settle(10 * time.Second)
			}
			e.S.Count("fault.nick-changed-before-reconnect")
			p.send(":" + curNick + "!" + wantIdent + "@host.sim NICK " + neu)
			curNick = neu
			simrt.Settle(10 * time.Second)
			d0 := discs
			switch g.S.Choose(3) {
			case 0:
				p.hangup()
			case 1:
				c.Close()
			default:
				p.l.Reset()
			}
			if !simrt.BlockFor("reg", "disconnect", time.Hour, func() bool { return discs > d0 }) {
				e.Violation("harness", "no disconnect\n%s", e.S.TaskDump())
				return
			}
			simrt.Settle(10 * time.Second)
		}
	}
	c.Close()
}

// ---------------------------------------------------------------------------
// C19: capability negotiation

// failingSasl is a sasl.Client whose Start returns an error.
type failingSasl struct{}

func (failingSasl) Start() (string, []byte, error) {
	return "", nil, errors.New("sim: no token available for this mechanism")
}
func (failingSasl) Next([]byte) ([]byte, error) { return nil, errors.New("sim: not started") }

func capRun(e *Env) {
	g := G{e.S}
	universe := []string{"multi-prefix", "away-notify", "account-notify", "extended-join"}
	big := g.Pct(25)
	if big {
		universe = nil
		for i := 0; i < g.Range(50, 200); i++ {
			// names of every length, so that request lines are filled to every
			// possible length, the limit itself included
			universe = append(universe, fmt.Sprintf("vendor.example/cap-%03d%s", i, g.Str(lower, 0, 24)))
		}
	}
	var wanted, advertised []string
	// the application keeps its capability names in one table and configures a
	// prefix of it (a slice with spare capacity: the rest of the table lies right
	// behind it in memory); between sessions it may configure another prefix
	tbl := append([]string{}, universe...)
	for i := len(tbl) - 1; i > 0; i-- {
		j := g.Intn(i + 1)
		tbl[i], tbl[j] = tbl[j], tbl[i]
	}
	saslKind := g.W(4, 3, 2, 1) // none, PLAIN, EXTERNAL, a mechanism whose Start fails
	if saslKind == 0 && g.Pct(25) {
		// sasl listed as an ordinary wanted capability, no SASL client configured:
		// an ACK containing it starts nothing
		at := g.Intn(len(tbl) + 1)
		tbl = append(tbl[:at], append([]string{"sasl"}, tbl[at:]...)...)
	}
	nWanted := 0
	for range tbl {
		if g.Pct(50) {
			nWanted++
		}
	}
	orig := append([]string{}, tbl...) // the harness's own copy of the names
	wanted = orig[:nWanted]
	var saslAdvertised, laterDisable bool
	var outcome string
	var reply int
	// what the server of one session offers and answers; the same client may
	// connect again to a server that offers something else
	drawServer := func() {
		advertised = nil
		for _, cp := range universe {
			if g.Pct(60) {
				advertised = append(advertised, cp)
			}
		}
		saslAdvertised = g.Pct(70)
		if saslAdvertised {
			advertised = append(advertised, "sasl")
		}
		outcome = []string{"903", "904", "908"}[g.Intn(3)]
		reply = g.W(6, 3) // ACK, NAK
		laterDisable = g.Pct(30)
	}
	drawServer()
	nSessions := 1 + g.W(6, 3, 1)
	cfg := client.NewConfig("me")
	cfg.EnableCapabilityNegotiation = true
	cfg.Capabilites = tbl[:nWanted]
	cfg.Flood = true
	cfg.PingFreq = 0
	cfg.Server = "irc.sim"
	cfg.Proxy = "sim://p"
	// (credentials over bytes that reach the last two symbols of the base64
	// alphabet, '+' and '/': '>', '?', '~' in the right place, or non-ASCII)
	user, pw := "user"+g.Str(lower, 1, 4), "pw"+g.Str(alnum+">?~>?~", 0, 8)
	if g.Pct(25) {
		pw += []string{"\u00ff", "p\u00e4ss\u00f6\u00ff", "\xfb\xff\xbf"}[g.Intn(3)]
	}
	extID := []string{"", "ident", "ab?", "id~>\u00ff"}[g.Intn(4)]
	var wantMech, wantIR string
	switch saslKind {
	case 1:
		cfg.Sasl = sasl.NewPlainClient("", user, pw)
		wantMech, wantIR = "PLAIN", "\x00"+user+"\x00"+pw
	case 2:
		cfg.Sasl = sasl.NewExternalClient(extID)
		wantMech, wantIR = "EXTERNAL", extID
	case 3:
		// a mechanism that cannot start (it would have to fetch a token first):
		// an ACK containing sasl then starts nothing and is followed by CAP END
		cfg.Sasl = failingSasl{}
		e.S.Count("fault.sasl-client-fails-to-start")
	}
	saslStarts := saslKind == 1 || saslKind == 2
	wantSet := map[string]bool{}
	setWanted := func() {
		for k := range wantSet {
			delete(wantSet, k)
		}
		for _, w := range wanted {
			wantSet[w] = true
		}
		if saslKind != 0 {
			wantSet["sasl"] = true
		}
	}
	setWanted()
	var inter []string
	intersect := func() {
		inter = nil
		for _, a := range advertised {
			if wantSet[a] {
				inter = append(inter, a)
			}
		}
		sort.Strings(inter)
	}
	intersect()
	e.Notef("sessions=%d wanted=%d; first server: advertised=%d intersection=%d sasl=%s advertised-sasl=%v reply=%s outcome=%s", nSessions, len(wantSet), len(advertised), len(inter),
		[]string{"none", "PLAIN", "EXTERNAL", "failing-to-start"}[saslKind], saslAdvertised, []string{"ACK", "NAK"}[reply], outcome)
	c := client.Client(cfg)
	discs := 0
	c.HandleFunc(client.DISCONNECTED, func(*client.Conn, *client.Line) { discs++ })
	var l *simnet.Link
	var got []string
	// whom the server addresses its CAP replies to: before the welcome it has
	// its own idea of the client's name ("*", the nick, a bouncer's placeholder,
	// a truncated nick); the replies mean the same whatever it writes there
	idStyle := g.W(5, 2, 2, 1)
	capID := func() string {
		switch idStyle {
		case 1:
			return "*"
		case 2:
			return []string{"unknown-nick", "m", "ME"}[g.S.Choose(3)]
		case 3:
			return []string{"*", "me", "unknown-nick"}[g.S.Choose(3)]
		}
		if g.S.Choose(2) == 0 {
			return "*"
		}
		return "me"
	}
	e.LinkPlan = func(l *simnet.Link) { l.ChunkMode = g.Intn(4) }
	// how the server spaces its capability lists: some pad them (a blank after
	// the last name, two blanks between names); the names are the same
	padStyle := g.W(6, 2, 1, 1)
	joinCaps := func(xs []string) string {
		switch padStyle {
		case 1:
			return strings.Join(xs, " ") + " "
		case 2:
			return strings.Join(xs, "  ")
		case 3:
			return " " + strings.Join(xs, "  ") + "  "
		}
		return strings.Join(xs, " ")
	}
	done := false
	enabled := map[string]bool{}
	saslStarted, saslAsked, saslEnded := false, false, false
	droppedMidSasl := false
	session := 1
	fail := func(clause, f string, a ...interface{}) {
		e.Violation(clause, f+fmt.Sprintf("\nclient lines so far: %s", clipq(got)), a...)
	}
	e.OnDial = func(nl *simnet.Link) {
		l = nl
		e.S.Spawn(fmt.Sprintf("server%d", nl.ID), func() {
			defer func() { done = true }()
			nextLine := func() (string, bool) {
				ln, ok := l.RecvLineFor(10 * time.Minute)
				if ok {
					ln = strings.TrimRight(ln, "\r\n")
					got = append(got, ln)
				}
				return ln, ok
			}
			// registration: CAP LS, NICK, USER
			for {
				ln, ok := nextLine()
				if !ok {
					fail("harness", "registration incomplete")
					return
				}
				if strings.HasPrefix(ln, "USER ") {
					break
				}
			}
			if got[0] != "CAP LS" {
				fail("cap-ls", "negotiation enabled but the first line is %q", got[0])
				return
			}
			// unrelated traffic interleaved
			l.SendLine(":irc.sim NOTICE * :*** Looking up your hostname")
			l.SendLine(":irc.sim CAP " + capID() + " LS :" + joinCaps(advertised))
			var reqs [][]string
			if len(inter) == 0 {
				ln, ok := nextLine()
				e.Check()
				if !ok || ln != "CAP END" {
					fail("empty-intersection", "nothing wanted is advertised: want CAP END, got %q", ln)
					return
				}
			} else {
				// REQ lines until the union covers the intersection
				seen := map[string]int{}
				total := 0
				for total < len(inter) {
					ln, ok := nextLine()
					if !ok || !strings.HasPrefix(ln, "CAP REQ :") {
						fail("req", "want CAP REQ for %d capabilities (%d requested so far), got %q", len(inter), total, ln)
						return
					}
					if len(ln) > 510 {
						fail("req-too-long", "a CAP REQ line is %d bytes long", len(ln))
						return
					}
					caps := strings.Fields(strings.TrimPrefix(ln, "CAP REQ :"))
					reqs = append(reqs, caps)
					for _, cp := range caps {
						seen[cp]++
						total++
					}
				}
				e.Check()
				var req []string
				for cp, k := range seen {
					if k != 1 {
						fail("req", "capability %q requested %d times", cp, k)
						return
					}
					req = append(req, cp)
				}
				sort.Strings(req)
				if strings.Join(req, " ") != strings.Join(inter, " ") {
					fail("req", "requested %s, want exactly wanted-and-advertised %s", clipq(req), clipq(inter))
					return
				}
				if len(reqs) > 1 {
					e.S.Count("probe.cap-req-split-over-lines")
				}
				// the server answers each REQ line
				for i, caps := range reqs {
					single := len(reqs) == 1
					hasSasl := false
					for _, cp := range caps {
						if cp == "sasl" {
							hasSasl = true
						}
					}
					if reply == 1 {
						l.SendLine(":irc.sim CAP " + capID() + " NAK :" + joinCaps(caps))
						ln, ok := nextLine()
						e.Check()
						if !ok || ln != "CAP END" {
							fail("end-after-nak", "after a NAK want CAP END, got %q", ln)
							return
						}
						if saslKind != 0 && g.S.Choose(2) == 0 {
							// a server asking for SASL data although sasl was never
							// acknowledged must get nothing
							e.S.Count("fault.unprompted-authenticate-after-nak")
							l.SendLine("AUTHENTICATE +")
							simrt.Settle(10 * time.Second)
							e.Check()
							if l.HasLine() {
								extra, _ := nextLine()
								fail("sasl-unacknowledged", "sasl was refused (NAK), yet the client answered the server's AUTHENTICATE + with %q", extra)
								return
							}
						}
						continue
					}
					if hasSasl && saslKind != 0 && g.S.Choose(3) == 0 {
						// ... and likewise before the acknowledgement has been sent
						e.S.Count("fault.unprompted-authenticate-before-ack")
						l.SendLine("AUTHENTICATE +")
						simrt.Settle(10 * time.Second)
						e.Check()
						if l.HasLine() {
							extra, _ := nextLine()
							fail("sasl-unacknowledged", "the client sent %q in answer to AUTHENTICATE + before sasl was acknowledged", extra)
							return
						}
					}
					l.SendLine(":irc.sim CAP " + capID() + " ACK :" + joinCaps(caps))
					for _, cp := range caps {
						enabled[cp] = true
					}
					if hasSasl && saslStarts {
						ln, ok := nextLine()
						e.Check()
						if !ok || ln != "AUTHENTICATE "+wantMech {
							fail("sasl-start", "after an ACK containing sasl want AUTHENTICATE %s, got %q", wantMech, ln)
							return
						}
						saslStarted = true
						// the client must wait for the server to ask
						simrt.Settle(10 * time.Second)
						if l.HasLine() && single {
							extra, _ := nextLine()
							fail("sasl-data-unasked", "the client sent %q before the server asked for the SASL data", extra)
							return
						}
						if !single {
							continue
						}
						if session < nSessions && g.S.Choose(4) == 0 {
							// the link drops in the middle of the SASL exchange: the
							// next connection starts from scratch
							e.S.Count("fault.link-drops-mid-sasl")
							droppedMidSasl = true
							l.CloseByServer()
							return
						}
						l.SendLine("AUTHENTICATE +")
						saslAsked = true
						ln, ok = nextLine()
						wantData := "+"
						if wantIR != "" {
							wantData = base64.StdEncoding.EncodeToString([]byte(wantIR))
						}
						e.Check()
						if !ok || ln != "AUTHENTICATE "+wantData {
							fail("sasl-data", "want AUTHENTICATE %s (the mechanism's initial response, base64), got %q", wantData, ln)
							return
						}
						switch outcome {
						case "903":
							l.SendLine(":irc.sim 900 me me!u@h me :You are now logged in as me")
							l.SendLine(":irc.sim 903 me :SASL authentication successful")
						case "904":
							l.SendLine(":irc.sim 904 me :SASL authentication failed")
						default:
							l.SendLine(":irc.sim 908 me PLAIN,EXTERNAL :are available SASL mechanisms")
						}
						saslEnded = true
						ln, ok = nextLine()
						e.Check()
						if !ok || ln != "CAP END" {
							fail("end-after-sasl", "after SASL outcome %s want CAP END, got %q", outcome, ln)
							return
						}
					} else {
						ln, ok := nextLine()
						e.Check()
						if !ok || ln != "CAP END" {
							fail("end-after-ack", "after an ACK that does not start SASL (line %d of %d) want CAP END, got %q", i+1, len(reqs), ln)
							return
						}
					}
				}
			}
			l.SendLine(":irc.sim 001 me :Welcome me!u@h")
			if laterDisable && reply == 0 && len(inter) > 0 {
				cp := inter[g.S.Choose(len(inter))]
				ack := "-" + cp
				if len(inter) > 1 && g.S.Choose(2) == 0 {
					// one acknowledgement with both signs: the capability taken away
					// named first, another one (held already, so nothing starts)
					// confirmed after it - each name carries its own sign
					other := inter[g.S.Choose(len(inter))]
					if other != cp && other != "sasl" {
						ack += " " + other
						e.S.Count("probe.acknowledgement-with-both-signs")
					}
				}
				l.SendLine(":irc.sim CAP " + capID() + " ACK :" + ack)
				enabled[cp] = false
				e.S.Count("probe.later-ack-disables-capability")
				// an acknowledgement that takes a capability away starts nothing,
				// whatever the capability: the answer is CAP END
				ln, ok := nextLine()
				e.Check()
				if !ok || ln != "CAP END" {
					fail("end-after-ack", "after the later ACK of -%s (an ACK that does not start SASL) want CAP END, got %q", cp, ln)
					return
				}
				if g.S.Choose(2) == 0 {
					// ... and enables it again, alone or along with what is held anyway
					again := cp
					if g.S.Choose(2) == 0 {
						again = strings.Join(inter, " ")
					}
					l.SendLine(":irc.sim CAP " + capID() + " ACK :" + again)
					enabled[cp] = true
					e.S.Count("probe.later-ack-enables-capability-again")
					ln, ok := nextLine()
					e.Check()
					if saslStarts && strings.Contains(" "+again+" ", " sasl ") {
						// this one does acknowledge sasl: the exchange starts over, and
						// the server lets it fail
						if !ok || ln != "AUTHENTICATE "+wantMech {
							fail("sasl-start", "after a later ACK containing sasl want AUTHENTICATE %s, got %q", wantMech, ln)
							return
						}
						l.SendLine(":irc.sim 904 me :SASL authentication failed")
						ln, ok = nextLine()
						e.Check()
					}
					if !ok || ln != "CAP END" {
						fail("end-after-ack", "after the later ACK of %q want CAP END in the end, got %q", clip(again), ln)
						return
					}
				} else if cp == "sasl" && saslStarts && saslAsked && g.S.Choose(2) == 0 {
					// sasl is no longer acknowledged and the data of the earlier exchange
					// has been asked for and given: a server asking again must get
					// nothing.  (When the earlier exchange was left unfinished the
					// response is still armed from an acknowledgement that did happen;
					// the property does not say that a later "-sasl" disarms it.)
					e.S.Count("fault.unprompted-authenticate-after-sasl-was-taken-away")
					l.SendLine("AUTHENTICATE +")
					simrt.Settle(10 * time.Second)
					e.Check()
					if l.HasLine() {
						extra, _ := nextLine()
						fail("sasl-unacknowledged", "the server's latest acknowledgement took sasl away, yet the client answered AUTHENTICATE + with %q", extra)
						return
					}
				}
			}
			if reply == 0 && len(inter) > 0 && g.S.Choose(4) == 0 {
				// a later request of the application is refused: a NAK changes
				// nothing on the server, so nothing about what is held either
				cp := inter[g.S.Choose(len(inter))]
				nak := []string{cp, "-" + cp, cp + " never-mentioned", strings.Join(inter, " ")}[g.S.Choose(4)]
				e.S.Count("probe.later-nak-names-a-held-capability")
				l.SendLine(":irc.sim CAP " + capID() + " NAK :" + nak)
				ln, ok := nextLine()
				e.Check()
				if !ok || ln != "CAP END" {
					fail("end-after-nak", "after a later NAK of %q want CAP END, got %q", clip(nak), ln)
					return
				}
			}
			simrt.Settle(20 * time.Second)
			for l.HasLine() {
				nextLine()
			}
		})
	}
	for ; session <= nSessions; session++ {
		if session > 1 {
			// the same client connects again; this server has its own offer
			e.S.Count("fault.reconnect-to-another-offer")
			drawServer()
			if g.Pct(40) {
				// the application wants more, or less, on the next connection
				nWanted = g.Intn(len(tbl) + 1)
				c.Config().Capabilites = tbl[:nWanted]
				wanted = orig[:nWanted]
				setWanted()
				e.S.Count("probe.wanted-capabilities-changed-between-sessions")
			}
			intersect()
			got, done, enabled = nil, false, map[string]bool{}
			saslStarted, saslAsked, saslEnded = false, false, false
			e.Notef("session %d: advertised=%d intersection=%d advertised-sasl=%v reply=%s outcome=%s", session, len(advertised), len(inter), saslAdvertised, []string{"ACK", "NAK"}[reply], outcome)
		}
		if err := c.Connect(); err != nil {
			e.Violation("harness-connect", "Connect: %v", err)
			return
		}
		if !simrt.BlockFor("cap", "negotiation script", 10*time.Hour, func() bool { return done || e.S.Failed() }) {
			e.Violation("negotiation-stuck", "capability negotiation did not end\n%s\nclient lines: %s", e.S.TaskDump(), clipq(got))
			return
		}
		if e.S.Failed() {
			return
		}
		if droppedMidSasl {
			droppedMidSasl = false
			if !simrt.BlockFor("cap", "DISCONNECTED after the link dropped", time.Hour, func() bool { return discs >= session }) {
				e.Violation("harness", "no DISCONNECTED after the server hung up\n%s", e.S.TaskDump())
				return
			}
			continue
		}
		simrt.Settle(10 * time.Second)
		// queries at quiescence
		all := append(append([]string{}, universe...), "sasl", "never-mentioned")
		adv := map[string]bool{}
		for _, a := range advertised {
			adv[a] = true
		}
		for _, cp := range all {
			e.Check()
			if c.SupportsCapability(cp) != adv[cp] {
				e.Violation("supports", "session %d: SupportsCapability(%q)=%v but this server advertised=%v", session, cp, c.SupportsCapability(cp), adv[cp])
				return
			}
			if c.HasCapability(cp) != enabled[cp] {
				e.Violation("has", "session %d: HasCapability(%q)=%v but the server's latest acknowledgement says %v", session, cp, c.HasCapability(cp), enabled[cp])
				return
			}
		}
		// after registration nothing more of the negotiation is sent, and AUTHENTICATE
		// never appears without an acknowledged sasl
		for _, ln := range got {
			if strings.HasPrefix(ln, "AUTHENTICATE") && !saslStarted {
				e.Violation("sasl-unacknowledged", "the client sent %q although sasl was never acknowledged", ln)
				return
			}
		}
		_, _ = saslAsked, saslEnded
		d0 := discs
		c.Close()
		if !simrt.BlockFor("cap", "DISCONNECTED", time.Hour, func() bool { return discs > d0 }) {
			e.Violation("harness", "no DISCONNECTED after Close\n%s", e.S.TaskDump())
			return
		}
	}
}

// ---------------------------------------------------------------------------
// C20: the connection password never reaches the log

func logRun(e *Env) {
	g := G{e.S}
	nonce := g.Str(alnum, 8, 8)
	printable := " !\"#$%&'()*+,-./0123456789:;<=>?@ABCXYZ[\\]^_`abcxyz{|}~"
	pw := g.Str(printable, 0, 20) + nonce + g.Str(printable, 0, 30)
	if g.Pct(12) {
		// "any length": the PASS line itself exceeds the protocol's 512 bytes
		pw += g.Str(printable, 440, 640)
	}
	pw = strings.TrimLeft(pw, " :")
	if g.Pct(10) {
		pw = "PASS " + pw
	}
	fault := g.W(4, 2, 2, 2, 2, 1, 2, 2) // none, write error at PASS, lost during registration, dial failure first, handler panic, EOF at once, TLS handshake fails first, the server is slow to read
	// a connection that never comes up has a password too: the attempt may fail
	// on the library's own dial path as well as behind a proxy
	direct := g.Pct(30)
	capNeg, track := g.Bool(), g.Bool()
	leaks := 0
	var leak string
	masked := 0
	e.Log.Scan = func(level, text string) {
		if strings.Contains(text, nonce) || strings.Contains(text, pw) {
			leaks++
			if leak == "" {
				leak = fmt.Sprintf("[%s] %s", level, text)
			}
		}
		if strings.Contains(text, "PASS ****") {
			masked++
		}
	}
	e.Notef("password=%q fault=%s capneg=%v track=%v direct-dial=%v", pw, []string{"none", "write error at the PASS line", "connection lost during registration", "dial failure, then retry", "handler panics after REGISTER", "EOF at once", "TLS handshake fails, then retry in plain", "the server does not read for longer than Config.Timeout"}[fault], capNeg, track, direct)
	cfg := client.NewConfig("me", "ident", "name")
	cfg.Pass = pw
	cfg.EnableCapabilityNegotiation = capNeg
	scrub := g.W(7, 2, 1) // 0 no, 1 the application wipes Config().Pass once REGISTER has run, 2 it replaces it
	if g.Pct(25) {
		// a server password and a SASL account at the same time (a bouncer)
		cfg.Sasl = sasl.NewPlainClient("", "account", "sasl-secret")
		e.S.Count("probe.password-together-with-sasl")
	}
	cfg.Server = "irc.sim"
	cfg.Proxy = "sim://p"
	if direct {
		cfg.Proxy = ""
	}
	if fault == 6 {
		cfg.SSL = true
		cfg.SSLConfig = &tls.Config{InsecureSkipVerify: true}
	}
	// the whole session through TLS, with a real crypto/tls server behind the
	// simulated socket: what is logged is the plain text either way
	tlsOn := (fault == 0 || fault == 3 || fault == 4) && g.Pct(25)
	if tlsOn {
		cfg.SSL = true
		cfg.SSLConfig = &tls.Config{InsecureSkipVerify: true}
		e.S.Count("probe.password-over-tls")
	}
	stall := time.Duration(0)
	if fault == 7 {
		// the write of the first lines (the PASS line among them) makes no progress
		// for several times the configured timeout: slow is not an error, and
		// whatever the client has to say about it must not quote the line
		cfg.Timeout = []time.Duration{200 * time.Millisecond, time.Second, 5 * time.Second}[g.Intn(3)]
		stall = cfg.Timeout * time.Duration(2+g.Intn(4))
		e.S.Count("fault.server-slow-to-read-the-registration")
	}
	cfg.Flood = g.Bool()
	cfg.PingFreq = 0
	c := client.Client(cfg)
	if track {
		c.EnableStateTracking()
	}
	if fault == 4 {
		c.HandleFunc(client.REGISTER, func(*client.Conn, *client.Line) { panic("handler panic right after REGISTER") })
		c.HandleFunc("001", func(c *client.Conn, l *client.Line) { panic(fmt.Sprintf("panic while handling %v", l.Args)) })
	}
	passLine := 1
	if capNeg || cfg.Sasl != nil {
		passLine = 2
	}
	e.LinkPlan = func(l *simnet.Link) {
		l.ChunkMode = g.Intn(4)
		if (fault == 6 && l.ID == 1) || tlsOn {
			// the TLS ClientHello carries bytes from crypto/rand: sizes only in the event log
			l.Opaque = true
		}
		if fault == 7 {
			l.Window = []int{1, 4, 16}[g.Intn(3)]
		}
		switch fault {
		case 1:
			l.WriteErrAtOp = passLine
			l.ShortWrite = g.Bool()
		case 2:
			l.WriteErrAtOp = passLine + 1 + g.Intn(2)
		case 5:
			l.EOFAtOp = 1
		}
	}
	sawPass := false
	eagerWelcome := g.Pct(25)
	if eagerWelcome {
		e.S.Count("probe.welcome-sent-before-the-registration-was-read")
	}
	e.OnDial = func(l *simnet.Link) {
		if fault == 6 && l.ID == 1 {
			// nothing that speaks TLS behind the socket
			l.CloseByServer()
			return
		}
		if tlsOn {
			tc := tls.Server(&simnet.ServerConn{L: l}, simTLSConfig())
			e.S.Spawn(fmt.Sprintf("tls-server%d", l.ID), func() {
				if tc.Handshake() != nil {
					return
				}
				buf := make([]byte, 0, 4096)
				tmp := make([]byte, 2048)
				for {
					n, err := tc.Read(tmp)
					buf = append(buf, tmp[:n]...)
					for {
						i := strings.IndexByte(string(buf), '\n')
						if i < 0 {
							break
						}
						ln := strings.TrimRight(string(buf[:i]), "\r")
						buf = buf[i+1:]
						if ln == "PASS "+pw {
							sawPass = true
						}
						if ln == "CAP LS" {
							tc.Write([]byte(":irc.sim CAP * LS :\r\n"))
						}
						if strings.HasPrefix(ln, "USER ") {
							tc.Write([]byte(":irc.sim 001 me :Welcome me!ident@host.sim\r\n:irc.sim 464 me :Password accepted\r\n"))
						}
					}
					if err != nil {
						return
					}
				}
			})
			return
		}
		e.S.Spawn(fmt.Sprintf("server%d", l.ID), func() {
			if eagerWelcome {
				// a server (a bouncer) that greets and welcomes before it has read
				// anything: the welcome is handled while PASS is still being written
				l.SendLine(":irc.sim NOTICE * :*** Looking up your hostname")
				l.SendLine(":irc.sim 001 me :Welcome me!ident@host.sim")
			}
			if stall > 0 {
				simrt.Sleep(stall)
			}
			for {
				ln, ok := l.RecvLineFor(time.Hour)
				if !ok {
					return
				}
				ln = strings.TrimRight(ln, "\r\n")
				if ln == "PASS "+pw {
					sawPass = true
				}
				if ln == "CAP LS" {
					l.SendLine(":irc.sim CAP * LS :")
				}
				if strings.HasPrefix(ln, "USER ") {
					// the server never echoes the password
					l.SendLine(":irc.sim 001 me :Welcome me!ident@host.sim")
					l.SendLine(":irc.sim 464 me :Password accepted")
				}
			}
		})
	}
	if fault == 3 {
		e.DialErr = func(n int, addr string) error {
			if n == 1 {
				return errors.New("sim: connection refused")
			}
			return nil
		}
		if err := c.Connect(); err == nil {
			e.Violation("harness", "dial failure did not fail Connect")
			return
		}
	}
	if fault == 6 {
		e.S.Count("fault.tls-handshake-fails")
		if err := c.Connect(); err == nil {
			e.Violation("harness", "Connect returned nil although the TLS handshake cannot have succeeded")
			return
		}
		c.Config().SSL = false
	}
	if scrub != 0 {
		// the password is handed to the library at Connect; an application may
		// clear or change the field as soon as the REGISTER event has fired,
		// while the PASS line is still queued or being written
		e.S.Count("probe.config-pass-changed-while-pass-in-flight")
		c.HandleFunc(client.REGISTER, func(c *client.Conn, l *client.Line) {
			if scrub == 1 {
				c.Config().Pass = ""
			} else {
				c.Config().Pass = "another-password"
			}
		})
	}
	if g.Pct(20) {
		// a busy relay that does not wait for the connection to be up: while the
		// dial is still in progress another goroutine hands over more lines than
		// the output queue holds, so the PASS line finds the queue full
		e.S.Count("fault.output-queue-full-before-the-pass-line")
		relays := 0
		e.DialWait = func(ctx context.Context, n int) error {
			handed := 0
			relays++
			e.S.Spawn(fmt.Sprintf("relay%d", relays), func() {
				for i := 0; i < 40; i++ {
					c.Privmsg("#relay", fmt.Sprintf("relayed traffic %d", i))
					handed++
				}
			})
			simrt.BlockFor("log.dial", "the relay to fill the output queue", time.Second, func() bool { return handed >= 32 })
			return nil
		}
	}
	err := c.Connect()
	// several sessions in quick succession, with traffic: the flood penalty
	// carries over a reconnect, so a later PASS line may itself be held back
	cycles := g.W(5, 2, 2, 1)
	for k := 0; k < cycles; k++ {
		simrt.Settle(time.Duration(g.Intn(4)) * time.Second)
		// the traffic comes from a task of its own: a sender that races a
		// disconnect may block for good on the dead connection's queue (a send
		// after the end of a connection is outside every claim here)
		talkDone := false
		nTalk := g.Intn(14)
		e.S.Spawn(fmt.Sprintf("talker%d", k), func() {
			for i := nTalk; i > 0 && c.Connected(); i-- {
				c.Privmsg("#c", "traffic before the next connection")
			}
			talkDone = true
		})
		simrt.BlockFor("log", "traffic handed over", 5*time.Minute, func() bool { return talkDone })
		simrt.Settle(time.Duration(g.Intn(3)) * time.Second)
		c.Close()
		e.S.Count("fault.reconnect-with-password")
		err = c.Connect()
	}
	simrt.Settle(2 * time.Minute)
	c.Close()
	simrt.Settle(10 * time.Second)
	e.Check()
	if leaks > 0 {
		e.Violation("password-logged", "the connection password %q reached the logger in %d record(s), e.g. %s (Connect error: %v)", pw, leaks, clip(leak), err)
		return
	}
	if sawPass && fault == 0 && masked == 0 {
		// informational only: with debug logging the PASS line appears masked
		e.S.Count("probe.pass-line-not-logged-at-all")
	}
	if masked > 0 {
		e.S.Count("probe.masked-pass-record-seen")
	}
}
