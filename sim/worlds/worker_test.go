package worlds

import (
	"bufio"
	"encoding/json"
	"flag"
	"fmt"
	"hash/fnv"
	"os"
	"runtime"
	"strings"
	"testing"
	"time"

	"verifsim/simrt"
)

var (
	fWorld    = flag.String("w.world", "", "world name")
	fProp     = flag.String("w.prop", "", "property id the run decides")
	fTier     = flag.String("w.tier", "quick", "quick|thorough")
	fSeed     = flag.Uint64("w.seed", 1, "VERIF_SEED")
	fFrom     = flag.Int("w.from", 0, "first run index")
	fTo       = flag.Int("w.to", 1, "one past the last run index")
	fStride   = flag.Int("w.stride", 1, "run index stride")
	fOut      = flag.String("w.out", "", "JSONL output file")
	fReplay   = flag.String("w.replay", "", "replay file to execute instead of searching")
	fKnown    = flag.String("w.known", "", "file with known violation classes, one per line")
	fMinBud   = flag.Int("w.minbudget", 400, "candidate runs for minimisation")
	fDeadline = flag.Duration("w.deadline", 0, "stop starting new runs after this much wall time")
	fTrace    = flag.Bool("w.trace", false, "keep the textual event log for every run (determinism self-test)")
	fRepDir   = flag.String("w.repdir", "", "directory for replay files")
	fRaceLog  = flag.String("w.racelog", "", "memory-model tier: the log_path prefix given to the race detector in GORACE")
	fRacePkgs = flag.String("w.racepkgs", "/goirc/state/", "memory-model tier: comma-separated path fragments of the packages whose data races are violations")
	fOnly     = flag.String("w.onlyclass", "", "comma-separated violation classes of interest; any other class is skipped like a listed finding (used to regenerate witnesses on old trees)")
)

type runRec struct {
	Idx       int               `json:"idx"`
	Seed      uint64            `json:"seed"`
	Verdict   string            `json:"verdict"`
	Class     string            `json:"class,omitempty"`
	Msg       string            `json:"msg,omitempty"`
	Steps     int               `json:"steps"`
	SimMs     int64             `json:"sim_ms"`
	Strategy  string            `json:"strategy"`
	Preempts  int               `json:"preempts"`
	Tasks     int               `json:"tasks"`
	SchedHash string            `json:"sched_hash"`
	LogHash   string            `json:"log_hash"`
	PlanHash  string            `json:"plan_hash"`
	Counters  map[string]int    `json:"counters,omitempty"`
	Oblig     int               `json:"oblig"`
	Notes     []string          `json:"notes,omitempty"`
	Info      map[string]string `json:"info,omitempty"`
	WallUs    int64             `json:"wall_us"`
	Replay    string            `json:"replay,omitempty"`
	Known     bool              `json:"known,omitempty"`
	Reconfirm string            `json:"reconfirm,omitempty"`
	Trace     []string          `json:"trace,omitempty"`
	Leftover  int               `json:"leftover,omitempty"`
}

type replayFile struct {
	Property string   `json:"property"`
	World    string   `json:"world"`
	Class    string   `json:"class"`
	Seed     uint64   `json:"seed"`
	RunIndex int      `json:"run_index"`
	Tier     string   `json:"tier"`
	Plan     []int32  `json:"plan"`
	Choices  []int32  `json:"choices"`
	Expect   expectT  `json:"expect"`
	Trace    []string `json:"trace"`
	Original sizeT    `json:"original"`
	Minimal  sizeT    `json:"minimised"`
	Notes    []string `json:"notes,omitempty"`
	// History is set when the violation depends on state the checked code keeps
	// between runs of one worker process (a package-level cache or pool): the
	// file then replays that worker's whole run sequence up to RunIndex.
	History *historyT `json:"history,omitempty"`
}

type historyT struct {
	From   int `json:"from"`
	Stride int `json:"stride"`
}

type expectT struct {
	Violation string `json:"violation"`
	LogHash   string `json:"log_hash"`
	SchedHash string `json:"sched_hash"`
}

type sizeT struct {
	Plan    int `json:"plan_choices"`
	Choices int `json:"run_choices"`
	Nonzero int `json:"nonzero_run_choices"`
	Steps   int `json:"steps"`
}

func mixSeed(seed uint64, idx int, world, prop string) uint64 {
	h := fnv.New64a()
	fmt.Fprintf(h, "%d/%d/%s/%s", seed, idx, world, prop)
	return h.Sum64()
}

func hashVec(v []int32) string {
	h := fnv.New64a()
	var b [4]byte
	for _, x := range v {
		b[0], b[1], b[2], b[3] = byte(x), byte(x>>8), byte(x>>16), byte(x>>24)
		h.Write(b[:])
	}
	return fmt.Sprintf("%016x", h.Sum64())
}

var curIdx int

func runOnce(t *testing.T, w *World, prop, tier string, cfg simrt.Config) (*simrt.Result, *Env) {
	var env *Env
	cfg.MaxSteps = w.MaxSteps
	cfg.MaxSimTime = w.MaxSimTime
	// real-time watchdog per run: a run that does not finish is infrastructure
	// trouble (exit 2), never a verdict
	wd := time.AfterFunc(10*time.Minute, func() {
		buf := make([]byte, 1<<20)
		n := runtime.Stack(buf, true)
		fmt.Fprintf(os.Stderr, "worker: run %d of world %s did not finish within 10 minutes of real time; goroutines:\n%s\n", curIdx, w.Name, buf[:n])
		os.Exit(2)
	})
	defer wd.Stop()
	res := simrt.Run(t, cfg, func(s *simrt.Sim) {
		env = &Env{S: s, Prop: prop, Tier: tier, Idx: curIdx}
		setupEnv(env)
		w.Run(env)
	})
	if simrt.RaceEnabled && *fRaceLog != "" {
		reps := newRaceReports(*fRaceLog)
		hit, other := raceVerdict(reps, strings.Split(*fRacePkgs, ","))
		if res.Counters == nil {
			res.Counters = map[string]int{}
		}
		res.Counters["probe.race-detector-reports-outside-the-checked-packages"] += other
		if hit != nil && res.Verdict != "inconclusive" {
			res.Counters["probe.race-detector-reports-in-the-checked-packages"]++
			// a data race outranks whatever else the run found: it is what this
			// tier exists to decide
			res.Verdict = "violation"
			res.Class = prop + ".data-race"
			res.Msg = fmt.Sprintf("the race detector reports unsynchronised accesses by %s (%s) and %s (%s) in a run whose only synchronisation is the library's own:\n%s",
				hit.Funcs[0], hit.Owners[0], hit.Funcs[1], hit.Owners[1], hit.Text)
		}
	}
	if res.Verdict == "violation" && !strings.HasPrefix(res.Class, prop+".") {
		// generic failures of the runtime (escaped panic, stall) are attributed
		// to the property being decided
		res.Class = prop + "." + res.Class
	}
	return res, env
}

// runExpect re-executes a recorded run.  The execution itself is a pure
// function of the vectors; what the race detector notices of it is not (it
// keeps a bounded, pseudo-randomly evicted history per memory word), so a run
// that is expected to end in a detector report is repeated a few times until
// the detector has seen it again.  Never used to look for new violations.
func runExpect(t *testing.T, w *World, prop, tier string, cfg simrt.Config, class string, tries int) (*simrt.Result, *Env) {
	if !simrt.RaceEnabled || !strings.HasSuffix(class, ".data-race") {
		tries = 1
	}
	var res *simrt.Result
	var env *Env
	for i := 0; i < tries; i++ {
		res, env = runOnce(t, w, prop, tier, cfg)
		if res.Verdict == "violation" && res.Class == class {
			break
		}
	}
	return res, env
}

func mkRec(idx int, seed uint64, res *simrt.Result, env *Env, wall time.Duration) *runRec {
	r := &runRec{
		Idx: idx, Seed: seed, Verdict: res.Verdict, Class: res.Class, Msg: res.Msg,
		Steps: res.Steps, SimMs: res.SimTime.Milliseconds(), Strategy: res.Strategy,
		Preempts: res.Preempts, Tasks: res.Tasks,
		SchedHash: fmt.Sprintf("%016x", res.SchedHash), LogHash: fmt.Sprintf("%016x", res.LogHash),
		PlanHash: hashVec(res.PlanVec), Counters: res.Counters, Info: res.Info,
		WallUs: wall.Microseconds(), Leftover: res.Leftover,
	}
	if env != nil {
		r.Oblig = env.Oblig
		r.Notes = env.Notes
	}
	return r
}

func loadKnown(path string) []string {
	if path == "" {
		return nil
	}
	f, err := os.Open(path)
	if err != nil {
		return nil
	}
	defer f.Close()
	var out []string
	sc := bufio.NewScanner(f)
	for sc.Scan() {
		l := strings.TrimSpace(sc.Text())
		if l != "" {
			out = append(out, l)
		}
	}
	return out
}

func isKnown(known []string, class string) bool {
	for _, k := range known {
		if k == class {
			return true
		}
	}
	return false
}

func TestWorker(t *testing.T) {
	if *fWorld == "" {
		t.Skip("no -w.world")
	}
	w := Worlds[*fWorld]
	if w == nil {
		fmt.Fprintf(os.Stderr, "worker: unknown world %q\n", *fWorld)
		os.Exit(2)
	}
	var out *bufio.Writer
	if *fOut != "" {
		f, err := os.Create(*fOut)
		if err != nil {
			fmt.Fprintln(os.Stderr, "worker:", err)
			os.Exit(2)
		}
		defer f.Close()
		out = bufio.NewWriter(f)
		defer out.Flush()
	} else {
		out = bufio.NewWriter(os.Stdout)
		defer out.Flush()
	}
	emit := func(r *runRec) {
		b, _ := json.Marshal(r)
		out.Write(b)
		out.WriteByte('\n')
		out.Flush()
	}

	if *fReplay != "" {
		b, err := os.ReadFile(*fReplay)
		if err != nil {
			fmt.Fprintln(os.Stderr, "worker:", err)
			os.Exit(2)
		}
		var rf replayFile
		if err := json.Unmarshal(b, &rf); err != nil {
			fmt.Fprintln(os.Stderr, "worker:", err)
			os.Exit(2)
		}
		curIdx = rf.RunIndex
		t0 := time.Now()
		if rf.History != nil {
			var res *simrt.Result
			var env *Env
			for idx := rf.History.From; idx <= rf.RunIndex; idx += rf.History.Stride {
				curIdx = idx
				res, env = runOnce(t, w, rf.Property, rf.Tier, simrt.Config{Seed: mixSeed(rf.Seed, idx, w.Name, rf.Property), Trace: idx == rf.RunIndex, Strategy: -1})
			}
			r := mkRec(rf.RunIndex, rf.Seed, res, env, time.Since(t0))
			r.Trace = res.Trace
			emit(r)
			return
		}
		res, env := runExpect(t, w, rf.Property, rf.Tier, simrt.Config{Seed: 1, Replay: true, PlanVec: rf.Plan, RunVec: rf.Choices, Trace: true, Strategy: -1}, rf.Class, 12)
		r := mkRec(rf.RunIndex, rf.Seed, res, env, time.Since(t0))
		r.Trace = res.Trace
		emit(r)
		return
	}

	known := loadKnown(*fKnown)
	start := time.Now()
	for idx := *fFrom; idx < *fTo; idx += *fStride {
		if *fDeadline > 0 && time.Since(start) > *fDeadline {
			break
		}
		seed := mixSeed(*fSeed, idx, w.Name, *fProp)
		curIdx = idx
		t0 := time.Now()
		res, env := runOnce(t, w, *fProp, *fTier, simrt.Config{Seed: seed, Trace: *fTrace, Strategy: -1})
		r := mkRec(idx, seed, res, env, time.Since(t0))
		if *fTrace {
			r.Trace = res.Trace
		}
		if res.Verdict != "violation" {
			emit(r)
			continue
		}
		// confirm in replay mode, minimise, write the replay file
		r.Known = isKnown(known, res.Class)
		if *fOnly != "" && !isKnown(strings.Split(*fOnly, ","), res.Class) {
			r.Known = true
		}
		conf, _ := runExpect(t, w, *fProp, *fTier, simrt.Config{Seed: 1, Replay: true, PlanVec: res.PlanVec, RunVec: res.RunVec, Strategy: -1}, res.Class, 8)
		switch {
		case conf.Verdict != "violation" || conf.Class != res.Class:
			r.Reconfirm = fmt.Sprintf("NOT REPRODUCED on replay: verdict=%s class=%s", conf.Verdict, conf.Class)
		case conf.LogHash != res.LogHash || conf.SchedHash != res.SchedHash:
			r.Reconfirm = "reproduced, but event-log hash differs"
		default:
			r.Reconfirm = "ok"
		}
		if r.Reconfirm != "NOT REPRODUCED" && *fRepDir != "" && !strings.HasPrefix(r.Reconfirm, "NOT") {
			budget := *fMinBud
			if r.Known {
				budget = budget / 4
			}
			plan, run, tries := minimise(t, w, *fProp, *fTier, res.PlanVec, res.RunVec, res.Class, budget)
			final, fenv := runExpect(t, w, *fProp, *fTier, simrt.Config{Seed: 1, Replay: true, PlanVec: plan, RunVec: run, Trace: true, Strategy: -1}, res.Class, 8)
			if !(final.Verdict == "violation" && final.Class == res.Class) && strings.HasSuffix(res.Class, ".data-race") {
				// the detector did not see the minimised run again: keep the original
				final, fenv = runExpect(t, w, *fProp, *fTier, simrt.Config{Seed: 1, Replay: true, PlanVec: res.PlanVec, RunVec: res.RunVec, Trace: true, Strategy: -1}, res.Class, 12)
			}
			if final.Verdict == "violation" && final.Class == res.Class {
				rf := replayFile{
					Property: *fProp, World: w.Name, Class: res.Class, Seed: *fSeed, RunIndex: idx, Tier: *fTier,
					Plan: final.PlanVec, Choices: final.RunVec,
					Expect:   expectT{Violation: firstLine(final.Msg), LogHash: fmt.Sprintf("%016x", final.LogHash), SchedHash: fmt.Sprintf("%016x", final.SchedHash)},
					Trace:    condense(final.Trace),
					Original: sizeT{len(res.PlanVec), len(res.RunVec), nonzero(res.RunVec), res.Steps},
					Minimal:  sizeT{len(final.PlanVec), len(final.RunVec), nonzero(final.RunVec), final.Steps},
				}
				if fenv != nil {
					rf.Notes = fenv.Notes
				}
				rf.Notes = append(rf.Notes, fmt.Sprintf("minimisation tried %d candidates", tries), "violation: "+final.Msg)
				os.MkdirAll(*fRepDir, 0o755)
				name := fmt.Sprintf("%s/%s-%d-%d.json", *fRepDir, sanitize(res.Class), *fSeed, idx)
				jb, _ := json.MarshalIndent(rf, "", " ")
				if err := os.WriteFile(name, jb, 0o644); err == nil {
					r.Replay = name
				}
				r.Msg = final.Msg
			}
		}
		if strings.HasPrefix(r.Reconfirm, "NOT") && *fRepDir != "" {
			// not reproducible on its own: it may depend on what earlier runs of
			// this process left behind in the checked code.  The driver replays
			// the whole sequence in a fresh process before it believes it.
			rf := replayFile{
				Property: *fProp, World: w.Name, Class: res.Class, Seed: *fSeed, RunIndex: idx, Tier: *fTier,
				Expect:  expectT{Violation: firstLine(res.Msg), LogHash: fmt.Sprintf("%016x", res.LogHash), SchedHash: fmt.Sprintf("%016x", res.SchedHash)},
				History: &historyT{From: *fFrom, Stride: *fStride},
				Notes: []string{"this violation does not reproduce from its own choice vectors alone: the checked code keeps state between runs (package-level variable). The file replays the worker's run sequence from run " +
					fmt.Sprint(*fFrom) + " in steps of " + fmt.Sprint(*fStride) + " up to run " + fmt.Sprint(idx) + ", in a fresh process.", "violation: " + res.Msg},
			}
			if env != nil {
				rf.Notes = append(rf.Notes, env.Notes...)
			}
			os.MkdirAll(*fRepDir, 0o755)
			name := fmt.Sprintf("%s/%s-%d-%d.history.json", *fRepDir, sanitize(res.Class), *fSeed, idx)
			jb, _ := json.MarshalIndent(rf, "", " ")
			if err := os.WriteFile(name, jb, 0o644); err == nil {
				r.Replay = name
				r.Reconfirm = "history: " + r.Reconfirm
			}
		}
		emit(r)
		if !r.Known {
			return // the driver stops at the first unlisted violation
		}
	}
}

func firstLine(s string) string {
	if i := strings.IndexByte(s, '\n'); i >= 0 {
		return s[:i]
	}
	return s
}

func tail(xs []string, n int) []string {
	if len(xs) <= n {
		return xs
	}
	return append([]string{fmt.Sprintf("... %d earlier events omitted ...", len(xs)-n)}, xs[len(xs)-n:]...)
}

// condense keeps every event that is not a plain scheduler step, plus the last
// 150 lines whatever they are, so that a replay file reads as the story of the
// run (the full log is printed by ./check replay).
func condense(xs []string) []string {
	var out []string
	skipped := 0
	for i, x := range xs {
		if i >= len(xs)-150 || !strings.Contains(x, " step ") {
			if skipped > 0 {
				out = append(out, fmt.Sprintf("        ... %d scheduler steps ...", skipped))
				skipped = 0
			}
			out = append(out, x)
		} else {
			skipped++
		}
	}
	if len(out) > 900 {
		out = append(append(append([]string{}, out[:200]...), fmt.Sprintf("        ... %d lines omitted ...", len(out)-800)), out[len(out)-600:]...)
	}
	return out
}

func nonzero(v []int32) int {
	n := 0
	for _, x := range v {
		if x != 0 {
			n++
		}
	}
	return n
}

func sanitize(s string) string {
	b := []byte(s)
	for i, c := range b {
		if !(c >= 'a' && c <= 'z' || c >= 'A' && c <= 'Z' || c >= '0' && c <= '9' || c == '.' || c == '-' || c == '_') {
			b[i] = '_'
		}
	}
	if len(b) > 80 {
		b = b[:80]
	}
	return string(b)
}

// minimise shrinks (plan, run) while the same violation class persists.
func minimise(t *testing.T, w *World, prop, tier string, plan, run []int32, class string, budget int) ([]int32, []int32, int) {
	tries := 0
	test := func(p, r []int32) (bool, []int32, []int32) {
		if tries >= budget {
			return false, nil, nil
		}
		tries++
		res, _ := runExpect(t, w, prop, tier, simrt.Config{Seed: 1, Replay: true, PlanVec: p, RunVec: r, Strategy: -1}, class, 3)
		if res.Verdict == "violation" && res.Class == class {
			return true, res.PlanVec, res.RunVec
		}
		return false, nil, nil
	}
	zeros := func(n int) []int32 { return make([]int32, n) }

	// schedule first: all defaults?
	if ok, p, r := test(plan, nil); ok {
		plan, run = p, r
	} else {
		// shortest prefix of the schedule (rest = defaults)
		lo, hi := 0, len(run)
		for lo < hi && tries < budget/3 {
			mid := (lo + hi) / 2
			if ok, p, r := test(plan, run[:mid]); ok {
				plan, run = p, trim(r, mid)
				hi = mid
				if len(run) < hi {
					hi = len(run)
				}
			} else {
				lo = mid + 1
			}
		}
	}
	// plan: delete chunks, then lower values
	for _, sz := range []int{16, 8, 4, 2, 1} {
		for i := 0; i+sz <= len(plan) && tries < budget*2/3; {
			cand := append(append([]int32{}, plan[:i]...), plan[i+sz:]...)
			if ok, p, r := test(cand, run); ok {
				plan, run = p, r
			} else {
				i += sz
			}
		}
	}
	for i := 0; i < len(plan) && tries < budget*5/6; i++ {
		if plan[i] == 0 {
			continue
		}
		for _, v := range []int32{0, plan[i] / 2, plan[i] - 1} {
			if v >= plan[i] {
				continue
			}
			cand := append([]int32{}, plan...)
			cand[i] = v
			if ok, p, r := test(cand, run); ok {
				plan, run = p, r
				break
			}
		}
	}
	// schedule: zero blocks of non-default choices
	for _, sz := range []int{256, 64, 16, 4, 1} {
		for i := 0; i < len(run) && tries < budget; i += sz {
			j := i + sz
			if j > len(run) {
				j = len(run)
			}
			if nonzero(run[i:j]) == 0 {
				continue
			}
			cand := append([]int32{}, run...)
			copy(cand[i:j], zeros(j-i))
			if ok, p, r := test(plan, cand); ok {
				plan, run = p, r
			}
		}
	}
	return plan, trimZeros(run), tries
}

func trim(r []int32, n int) []int32 {
	if len(r) > n {
		// keep the recorded values: beyond n they were defaults anyway
		return r
	}
	return r
}

func trimZeros(r []int32) []int32 {
	n := len(r)
	for n > 0 && r[n-1] == 0 {
		n--
	}
	return r[:n]
}
