package worlds

import (
	"errors"
	"fmt"
	"sort"
	"strings"
	"time"

	"github.com/fluffle/goirc/client"
	"github.com/fluffle/goirc/state"

	"verifsim/simnet"
	"verifsim/simrt"
)

// W-track: model IRC network <-> tracked client.  Decides C05 and C13.
func init() {
	register(&World{Name: "track", Run: trackRun, MaxSteps: 4000000, MaxSimTime: 200 * time.Hour})
}

// ---- ground truth -------------------------------------------------------------

type netUser struct {
	nick, ident, host, name string
	quit                    bool
}

type netChan struct {
	name    string
	topic   string
	flags   map[byte]bool // simple channel flags
	key     string
	limit   int
	members map[*netUser]map[byte]bool // privilege letters q a o h v
}

// view is what the protocol has revealed to the client so far: the expected
// content of the tracker.  It is updated line by line as the server sends.
type view struct {
	me    string
	nicks map[string]*vNick
	chans map[string]*vChan
}

type vNick struct {
	ident, host, name string
}

type vChan struct {
	topic string
	modes state.ChanMode
	mem   map[string]*state.ChanPrivs
}

func (v *view) clone() *view {
	c := &view{me: v.me, nicks: map[string]*vNick{}, chans: map[string]*vChan{}}
	for k, n := range v.nicks {
		x := *n
		c.nicks[k] = &x
	}
	for k, ch := range v.chans {
		x := &vChan{topic: ch.topic, modes: ch.modes, mem: map[string]*state.ChanPrivs{}}
		for n, p := range ch.mem {
			q := *p
			x.mem[n] = &q
		}
		c.chans[k] = x
	}
	return c
}

func (v *view) onAny(n string) bool {
	for _, ch := range v.chans {
		if _, ok := ch.mem[n]; ok {
			return true
		}
	}
	return false
}

func (v *view) dropChan(c string) {
	ch := v.chans[c]
	if ch == nil {
		return
	}
	delete(v.chans, c)
	for n := range ch.mem {
		if n != v.me && !v.onAny(n) {
			delete(v.nicks, n)
		}
	}
}

func (v *view) encChan(c string) string {
	ch := v.chans[c]
	if ch == nil {
		return "nil"
	}
	md := ch.modes
	s := &state.Channel{Name: c, Topic: ch.topic, Modes: &md, Nicks: ch.mem}
	return encChan(s, true)
}

// encNickV encodes a nick without user modes (outside the claim).
func (v *view) encNick(n string) string {
	nk := v.nicks[n]
	if nk == nil {
		return "nil"
	}
	var b strings.Builder
	fmt.Fprintf(&b, "N{%q %q %q %q", n, nk.ident, nk.host, nk.name)
	for _, c := range sortedKeys(v.chans) {
		if p, ok := v.chans[c].mem[n]; ok {
			fmt.Fprintf(&b, " %q:%s", c, encPrivs(p))
		}
	}
	b.WriteString("}")
	return b.String()
}

func encNickNoModes(n *state.Nick) string {
	if n == nil {
		return "nil"
	}
	var b strings.Builder
	fmt.Fprintf(&b, "N{%q %q %q %q", n.Nick, n.Ident, n.Host, n.Name)
	ks := make([]string, 0, len(n.Channels))
	for k := range n.Channels {
		ks = append(ks, k)
	}
	sort.Strings(ks)
	for _, k := range ks {
		fmt.Fprintf(&b, " %q:%s", k, encPrivs(n.Channels[k]))
	}
	b.WriteString("}")
	return b.String()
}

// ---- the model network --------------------------------------------------------

type sentLine struct {
	idx      int
	text     string
	names    []string // nicks and channels the line mentions (old and new)
	view     *view    // expected tracker content once this line has been applied
	effect   func(st state.Tracker) string
	stateful bool
}

type network struct {
	e     *Env
	g     G
	l     *simnet.Link
	me    *netUser
	users []*netUser
	chans []*netChan
	v     *view
	sent  []*sentLine
	// names ever used, for "nothing extra is tracked"
	allNicks       map[string]bool
	allChans       map[string]bool
	listModes      bool
	who352         map[string]bool // nick -> a 352 for it has been sent
	askedMode      map[string]bool // channel -> the client has sent MODE <channel> since it last joined it
	askedWho       map[string]bool
	pendingReplies []func()
}

const privOrder = "qaohv"

var privPrefix = map[byte]string{'q': "~", 'a': "&", 'o': "@", 'h': "%", 'v': "+"}

func setPriv(p *state.ChanPrivs, letter byte, on bool) {
	switch letter {
	case 'q':
		p.Owner = on
	case 'a':
		p.Admin = on
	case 'o':
		p.Op = on
	case 'h':
		p.HalfOp = on
	case 'v':
		p.Voice = on
	}
}

func setFlag(m *state.ChanMode, f byte, on bool) {
	switch f {
	case 'i':
		m.InviteOnly = on
	case 'm':
		m.Moderated = on
	case 'n':
		m.NoExternalMsg = on
	case 'p':
		m.Private = on
	case 'r':
		m.Registered = on
	case 's':
		m.Secret = on
	case 't':
		m.ProtectedTopic = on
	case 'z':
		m.SSLOnly = on
	case 'Z':
		m.AllSSL = on
	case 'O':
		m.OperOnly = on
	}
}

func (u *netUser) src() string { return u.nick + "!" + u.ident + "@" + u.host }

// send puts one server line on the wire, tagged with its index, after applying
// its protocol meaning to the expected view.
func (n *network) send(text string, names []string, stateful bool) *sentLine {
	sl := &sentLine{idx: len(n.sent), text: text, names: names, stateful: stateful}
	sl.view = n.v.clone()
	n.sent = append(n.sent, sl)
	for _, x := range names {
		if strings.HasPrefix(x, "#") {
			n.allChans[x] = true
		} else {
			n.allNicks[x] = true
		}
	}
	n.l.SendLine(fmt.Sprintf("@seq=%d %s", sl.idx, text))
	return sl
}

func (n *network) meOn(c *netChan) bool { _, ok := c.members[n.me]; return ok }

func (n *network) chanByName(name string) *netChan {
	for _, c := range n.chans {
		if c.name == name {
			return c
		}
	}
	return nil
}

func (n *network) userByNick(nick string) *netUser {
	for _, u := range n.users {
		if u.nick == nick && !u.quit {
			return u
		}
	}
	return nil
}

func highest(p map[byte]bool) byte {
	for i := 0; i < len(privOrder); i++ {
		if p[privOrder[i]] {
			return privOrder[i]
		}
	}
	return 0
}

// ---- events -------------------------------------------------------------------

func (n *network) evJoinMe(c *netChan) {
	delete(n.askedMode, c.name)
	delete(n.askedWho, c.name)
	c.members[n.me] = map[byte]bool{}
	if len(c.members) == 1 {
		c.members[n.me]['o'] = true
	}
	// JOIN echo: the client creates the channel and asks for MODE and WHO
	n.v.chans[c.name] = &vChan{mem: map[string]*state.ChanPrivs{n.v.me: {}}}
	n.send(":"+n.me.src()+" JOIN "+[]string{"", ":"}[n.g.S.Choose(2)]+c.name, []string{n.me.nick, c.name}, true)
	if c.topic != "" {
		n.v.chans[c.name].topic = c.topic
		n.send(":irc.sim 332 "+n.me.nick+" "+c.name+" :"+c.topic, []string{c.name}, true)
	}
	// NAMES, possibly over several lines, highest prefix only
	var names []string
	var mentioned []string
	for _, u := range n.sortedMembers(c) {
		pfx := ""
		if h := highest(c.members[u]); h != 0 {
			pfx = privPrefix[h]
		}
		names = append(names, pfx+u.nick)
		mentioned = append(mentioned, u.nick)
	}
	per := len(names)
	if n.g.S.Choose(3) == 0 && per > 1 {
		per = 1 + n.g.S.Choose(per)
	}
	for i := 0; i < len(names); i += per {
		j := i + per
		if j > len(names) {
			j = len(names)
		}
		for _, u := range n.sortedMembers(c)[i:j] {
			if _, ok := n.v.nicks[u.nick]; !ok {
				n.v.nicks[u.nick] = &vNick{}
			}
			vc := n.v.chans[c.name]
			if _, ok := vc.mem[u.nick]; !ok {
				vc.mem[u.nick] = &state.ChanPrivs{}
			}
			if h := highest(c.members[u]); h != 0 {
				setPriv(vc.mem[u.nick], h, true)
			}
		}
		trail := strings.Join(names[i:j], " ")
		if n.g.S.Choose(4) == 0 {
			trail += " " // some servers leave a trailing space
		}
		// the channel-type symbol: public, private or secret
		sym := "="
		if c.flags['s'] {
			sym = "@"
		} else if c.flags['p'] {
			sym = "*"
		} else if n.g.S.Choose(4) == 0 {
			sym = []string{"@", "*"}[n.g.S.Choose(2)]
		}
		n.send(":irc.sim 353 "+n.me.nick+" "+sym+" "+c.name+" :"+trail, append([]string{c.name}, mentioned[i:j]...), true)
	}
	n.send(":irc.sim 366 "+n.me.nick+" "+c.name+" :End of /NAMES list.", []string{c.name}, false)
}

func (n *network) sortedMembers(c *netChan) []*netUser {
	var us []*netUser
	for u := range c.members {
		us = append(us, u)
	}
	sort.Slice(us, func(i, j int) bool { return us[i].nick < us[j].nick })
	return us
}

func (n *network) evJoinOther(u *netUser, c *netChan) {
	c.members[u] = map[byte]bool{}
	if _, ok := n.v.nicks[u.nick]; !ok {
		n.v.nicks[u.nick] = &vNick{ident: u.ident, host: u.host}
	}
	n.v.chans[c.name].mem[u.nick] = &state.ChanPrivs{}
	n.send(":"+u.src()+" JOIN "+[]string{"", ":"}[n.g.S.Choose(2)]+c.name, []string{u.nick, c.name}, true)
}

// leave: PART or KICK of u from c
func (n *network) evLeave(u *netUser, c *netChan, kick bool) {
	delete(c.members, u)
	if u == n.me {
		n.v.dropChan(c.name)
	} else {
		delete(n.v.chans[c.name].mem, u.nick)
		if !n.v.onAny(u.nick) {
			delete(n.v.nicks, u.nick)
		}
	}
	if kick {
		kicker := n.pickOther(c, u)
		src := "irc.sim"
		if kicker != nil {
			src = kicker.src()
		}
		// the comment is optional in the protocol
		n.send(":"+src+" KICK "+c.name+" "+u.nick+[]string{" :bye", " :bye", "", " :"}[n.g.S.Choose(4)], []string{u.nick, c.name}, true)
	} else {
		msg := ""
		if n.g.S.Choose(2) == 0 {
			msg = " :leaving"
		}
		n.send(":"+u.src()+" PART "+c.name+msg, []string{u.nick, c.name}, true)
	}
	if len(c.members) == 0 {
		c.topic, c.key, c.limit, c.flags = "", "", 0, map[byte]bool{}
	}
}

func (n *network) pickOther(c *netChan, not *netUser) *netUser {
	var cand []*netUser
	for _, u := range n.sortedMembers(c) {
		if u != not {
			cand = append(cand, u)
		}
	}
	if len(cand) == 0 {
		return nil
	}
	return cand[n.g.S.Choose(len(cand))]
}

func (n *network) evQuit(u *netUser) {
	visible := n.v.nicks[u.nick] != nil
	var names = []string{u.nick}
	for _, c := range n.chans {
		if _, ok := c.members[u]; ok {
			delete(c.members, u)
			names = append(names, c.name)
			if vc := n.v.chans[c.name]; vc != nil {
				delete(vc.mem, u.nick)
			}
		}
	}
	u.quit = true
	delete(n.v.nicks, u.nick)
	if visible {
		n.send(":"+u.src()+" QUIT"+[]string{" :gone", " :gone", "", " :", " :hub.sim leaf.sim", " :*.net *.split", " :Ping timeout: 240 seconds", " :Killed (oper (go away))"}[n.g.S.Choose(8)], names, true)
	}
}

func (n *network) evNick(u *netUser, neu string) {
	old := u.nick
	visible := n.v.nicks[old] != nil
	if visible {
		nk := n.v.nicks[old]
		delete(n.v.nicks, old)
		n.v.nicks[neu] = nk
		for _, vc := range n.v.chans {
			if p, ok := vc.mem[old]; ok {
				delete(vc.mem, old)
				vc.mem[neu] = p
			}
		}
		if n.v.me == old {
			n.v.me = neu
		}
	}
	src := u.src()
	u.nick = neu
	if n.who352[old] {
		n.who352[neu] = true
		delete(n.who352, old)
	}
	if visible {
		n.send(":"+src+" NICK "+[]string{"", ":"}[n.g.S.Choose(2)]+neu, []string{old, neu}, true)
	}
}

func (n *network) evTopic(c *netChan, by *netUser, t string) {
	c.topic = t
	n.v.chans[c.name].topic = t
	n.send(":"+by.src()+" TOPIC "+c.name+" :"+t, []string{c.name}, true)
}

// evMode: a MODE line with 1-4 changes; list modes with arguments (swarm knob)
func (n *network) evMode(c *netChan, by *netUser, uniq *int) {
	var ms strings.Builder
	var args []string
	names := []string{c.name}
	on := true
	first := true
	sign := func(want bool) {
		if first || on != want {
			if want {
				ms.WriteByte('+')
			} else {
				ms.WriteByte('-')
			}
			on, first = want, false
		}
	}
	vc := n.v.chans[c.name]
	k := 1 + n.g.S.Choose(4)
	for i := 0; i < k; i++ {
		last := i == k-1
		switch n.g.S.ChooseW(3, 4, 1, 1, 2) {
		case 0: // flag
			f := "imnprstzZO"[n.g.S.Choose(10)]
			w := n.g.S.Choose(3) != 0
			sign(w)
			ms.WriteByte(f)
			c.flags[f] = w
			setFlag(&vc.modes, f, w)
		case 1: // privilege of a member
			us := n.sortedMembers(c)
			u := us[n.g.S.Choose(len(us))]
			p := privOrder[n.g.S.Choose(5)]
			w := n.g.S.Choose(3) != 0
			sign(w)
			ms.WriteByte(p)
			args = append(args, u.nick)
			names = append(names, u.nick)
			c.members[u][p] = w
			setPriv(vc.mem[u.nick], p, w)
		case 2: // key
			if n.g.S.Choose(2) == 0 {
				*uniq++
				key := fmt.Sprintf("key%d", *uniq)
				sign(true)
				ms.WriteByte('k')
				args = append(args, key)
				c.key = key
				vc.modes.Key = key
			} else if last && c.key != "" {
				// key removal carries the key as its argument: only in last
				// position (further arguments behind it are outside the claim)
				sign(false)
				ms.WriteByte('k')
				args = append(args, c.key)
				c.key = ""
				vc.modes.Key = ""
			}
		case 3: // limit
			if n.g.S.Choose(2) == 0 {
				*uniq++
				lim := 2 + *uniq%90
				sign(true)
				ms.WriteByte('l')
				args = append(args, fmt.Sprint(lim))
				c.limit = lim
				vc.modes.Limit = lim
			} else {
				sign(false)
				ms.WriteByte('l')
				c.limit = 0
				vc.modes.Limit = 0
			}
		default: // list mode with a mask argument
			if n.listModes {
				*uniq++
				sign(n.g.S.Choose(3) != 0)
				ms.WriteByte("beI"[n.g.S.Choose(3)])
				args = append(args, fmt.Sprintf("*!*@host%d.sim", *uniq))
				n.e.S.Count("probe.list-mode-with-argument")
			}
		}
	}
	if ms.Len() == 0 {
		sign(true)
		ms.WriteByte('n')
		c.flags['n'] = true
		setFlag(&vc.modes, 'n', true)
	}
	line := ":" + by.src() + " MODE " + c.name + " " + ms.String()
	if len(args) > 0 {
		line += " " + strings.Join(args, " ")
	}
	n.send(line, names, true)
}

// reply324: answer to the client's MODE #chan query
func (n *network) reply324(cname string) {
	c := n.chanByName(cname)
	if c == nil {
		return
	}
	var ms strings.Builder
	ms.WriteByte('+')
	var args []string
	for _, f := range "imnprstzZO" {
		if c.flags[byte(f)] {
			ms.WriteByte(byte(f))
		}
	}
	if c.key != "" {
		ms.WriteByte('k')
		args = append(args, c.key)
	}
	if c.limit != 0 {
		ms.WriteByte('l')
		args = append(args, fmt.Sprint(c.limit))
	}
	if vc := n.v.chans[cname]; vc != nil {
		for _, f := range "imnprstzZO" {
			if c.flags[byte(f)] {
				setFlag(&vc.modes, byte(f), true)
			}
		}
		if c.key != "" {
			vc.modes.Key = c.key
		}
		if c.limit != 0 {
			vc.modes.Limit = c.limit
		}
	}
	line := ":irc.sim 324 " + n.me.nick + " " + cname + " " + ms.String()
	if len(args) > 0 {
		line += " " + strings.Join(args, " ")
	}
	n.send(line, []string{cname}, true)
}

// replyWho: 352 lines for a channel or a nick, then 315
func (n *network) replyWho(target string) {
	var us []*netUser
	cname := "*"
	if c := n.chanByName(target); c != nil {
		us = n.sortedMembers(c)
		cname = c.name
	} else if u := n.userByNick(target); u != nil {
		us = []*netUser{u}
	}
	for _, u := range us {
		if u.quit {
			continue
		}
		if nk := n.v.nicks[u.nick]; nk != nil && u.nick != n.v.me {
			nk.ident, nk.host, nk.name = u.ident, u.host, u.name
		}
		n.who352[u.nick] = true
		n.send(fmt.Sprintf(":irc.sim 352 %s %s %s %s irc.sim %s H :0 %s", n.me.nick, cname, u.ident, u.host, u.nick, u.name), []string{u.nick}, true)
	}
	n.send(":irc.sim 315 "+n.me.nick+" "+target+" :End of /WHO list.", nil, false)
}

// ---- comparing the tracker with a view ------------------------------------------

func compareView(st state.Tracker, v *view, nicks, chans []string) string {
	me := st.Me()
	if me == nil {
		return "Me() is nil"
	}
	if me.Nick != v.me {
		return fmt.Sprintf("Me().Nick=%q, the server uses %q", me.Nick, v.me)
	}
	for _, c := range chans {
		var got string
		if ch := st.GetChannel(c); ch == nil {
			got = "nil"
		} else {
			got = encChan(ch, true)
		}
		if want := v.encChan(c); got != want {
			return fmt.Sprintf("channel %s: tracker %s, ground truth as revealed by the protocol %s", c, got, want)
		}
	}
	for _, n := range nicks {
		got := encNickNoModes(st.GetNick(n))
		want := v.encNick(n)
		if n == v.me {
			// the client's own ident/host/name come from its configuration and
			// the welcome line: only memberships are compared
			if g := st.GetNick(n); g != nil {
				x := *g
				x.Ident, x.Host, x.Name = v.nicks[n].ident, v.nicks[n].host, v.nicks[n].name
				got = encNickNoModes(&x)
			}
		}
		if got != want {
			return fmt.Sprintf("nick %q: tracker %s, ground truth as revealed by the protocol %s", n, got, want)
		}
	}
	return ""
}

// ---- the world -----------------------------------------------------------------

func trackRun(e *Env) {
	g := G{e.S}
	nUsers := g.Range(3, 8)
	nChans := g.Range(2, 5)
	nEvents := []int{3, 10, 25, 60, 150, 400}[g.Intn(6)]
	if e.Prop == "C05" && nEvents > 60 {
		nEvents = 60
	}
	adversary := e.Prop == "C13" && g.Pct(35)
	net := &network{e: e, g: g, allNicks: map[string]bool{}, allChans: map[string]bool{}, who352: map[string]bool{}, askedMode: map[string]bool{}, askedWho: map[string]bool{}}
	net.listModes = g.Pct(40)
	flood := g.Pct(60)
	names := []string{"alice", "bob", "carol", "dave", "erin", "frank", "grace", "heidi"}
	// spelling: servers keep the case a name was created with, and so must the
	// tracker (every line of a session uses the one spelling)
	if g.Pct(35) {
		for i := range names {
			if g.Pct(50) {
				names[i] = strings.ToUpper(names[i][:1]) + names[i][1:]
			}
		}
	}
	if g.Pct(30) {
		// every character a nickname may have: brackets, braces, bar, backslash,
		// caret, backquote, underscore, hyphen
		for i := range names {
			if g.Pct(40) {
				names[i] = []string{"{%s}", "[%s]", "%s|afk", "%s^", "`%s`", "_%s-", "%s\\x", "w{%s"}[g.Intn(8)]
				names[i] = fmt.Sprintf(names[i], []string{"al", "bo", "ca", "da", "er", "fr", "gr", "he"}[i])
			}
		}
	}
	chanFmt := []string{"#c%d", "#Chan%d", "&LOCAL%d", "#GoLang-%d"}[g.W(5, 2, 1, 1)]
	net.me = &netUser{nick: "me", ident: "sim", host: "host.sim", name: "Sim User"}
	net.users = append(net.users, net.me)
	for i := 0; i < nUsers; i++ {
		net.users = append(net.users, &netUser{nick: names[i], ident: "id" + names[i], host: names[i] + ".host.sim", name: "Real " + names[i] + []string{"", "", "", "", "", " ", " \t", " :-) Smith", " :x"}[g.Intn(9)]})
	}
	for i := 0; i < nChans; i++ {
		c := &netChan{name: fmt.Sprintf(chanFmt, i), flags: map[byte]bool{}, members: map[*netUser]map[byte]bool{}}
		// pre-existing population with privileges
		for _, u := range net.users[1:] {
			if g.Pct(50) {
				c.members[u] = map[byte]bool{}
				for _, p := range privOrder {
					if g.Pct(20) {
						c.members[u][byte(p)] = true
					}
				}
			}
		}
		if g.Pct(60) {
			// (free text: smileys, colons after blanks, a second " :" are all just text)
			c.topic = fmt.Sprintf("topic of %s", c.name) + []string{"", "", "", "", " ", " \t ", "   ", " :) read the rules", " :: no spam : be nice", ": x :y"}[g.Intn(10)]
		}
		for _, f := range "nts" {
			if g.Pct(50) {
				c.flags[byte(f)] = true
			}
		}
		if g.Pct(30) {
			c.key = "sesame"
		}
		if g.Pct(30) {
			c.limit = 42
		}
		net.chans = append(net.chans, c)
	}
	net.v = &view{me: "me", nicks: map[string]*vNick{"me": {ident: "sim", host: "host.sim", name: "Sim User"}}, chans: map[string]*vChan{}}

	var c *client.Conn
	ready := false
	parkedBG, sessionOver := 0, false
	if g.Pct(15) {
		parkedBG = g.Range(20, 48)
	}
	defer func() { sessionOver = true }()
	welcomeMark := 0 // lines the model had sent when it (last) sent a welcome
	welcomeText := 0
	// client lines: MODE/WHO queries are answered later, at random moments
	var queries []string
	clientLines := 0
	e.LinkPlan = func(l *simnet.Link) { l.ChunkMode = g.Intn(4); l.Window = []int{0, 0, 0, 16, 64, 300}[g.Intn(6)] }
	dials := 0
	e.OnDial = func(l *simnet.Link) {
		dials++
		if dials > 1 && e.Prop != "C13" {
			// a reconnect issued by the poller after the mid-session end: a new
			// session whose lines must not reach the tracker while a foreground
			// handler of the old connection is still running
			e.S.Spawn(fmt.Sprintf("server%d", dials), func() {
				if _, ok := Registration(l, time.Hour); !ok {
					return
				}
				l.SendLine(":irc.sim 001 again :Welcome to the sim again!sim@host.sim")
				l.SendLine(":again!sim@host.sim JOIN #second")
				l.SendLine(":irc.sim 353 again = #second :again @zoe +yan")
				for {
					if _, ok := l.RecvLine(); !ok {
						return
					}
				}
			})
			return
		}
		net.l = l
		e.S.Spawn(fmt.Sprintf("server-%d", dials), func() {
			if _, ok := Registration(l, time.Hour); !ok {
				return
			}
			welcomeMark = len(net.sent)
			// (servers word the welcome differently: the client's full address at
			// the end, the nick only, neither)
			if parkedBG > 0 {
				l.SendLine(":irc.sim NOTICE * :*** Looking up your hostname")
			}
			l.SendLine(":irc.sim 001 " + net.me.nick + " :" + []string{"Welcome to the sim " + net.me.nick + "!sim@host.sim", "Welcome to the Internet Relay Network " + net.me.nick, "Welcome to the sim"}[welcomeText])
			ready = true
			for {
				ln, ok := l.RecvLine()
				if !ok {
					return
				}
				ln = strings.TrimRight(ln, "\r\n")
				clientLines++
				if (strings.HasPrefix(ln, "MODE ") || strings.HasPrefix(ln, "WHO ")) && len(strings.Fields(ln)) >= 2 {
					queries = append(queries, ln)
					if f := strings.Fields(ln); len(f) == 2 && f[0] == "MODE" {
						net.askedMode[f[1]] = true
					} else if len(f) == 2 {
						net.askedWho[f[1]] = true
					}
				}
			}
		})
	}
	// the server may welcome the client under another nick than it asked for:
	// the welcome line is then a line that changes the tracker too
	reqNick := "me"
	if g.Pct(35) {
		reqNick = "asked"
	}
	welcomeText = g.W(6, 2, 1)
	// state tracking may also be switched on in mid-session, after lines of the
	// very verbs the tracker listens to have gone by untracked (the client joined
	// a channel before): from then on every line is tracked like in any session
	lateTrack := g.Pct(12)
	trackingOn := !lateTrack
	co := ClientOpts{Nick: reqNick, Ident: "sim", Name: "Sim User", Flood: flood, Track: !lateTrack}
	if g.Pct(30) {
		// an application's recovery hook that takes its time (it runs after every
		// handler, also after the built-in registration step inside Connect): the
		// connecting goroutine is then still inside Connect when the server's
		// first lines are being handled
		e.S.Count("probe.slow-recovery-hook")
		co.Recover = func(c *client.Conn, l *client.Line) {
			// (it is the recovery hook: a built-in handler that panics on a
			// non-conformant line is its business, as it is LogPanic's)
			_ = recover()
			if l != nil && l.Cmd == client.REGISTER {
				simrt.Sleep(time.Duration(1+g.S.Choose(5)) * time.Millisecond)
			}
		}
	}
	c = NewClient(g.Knobs(co))
	if parkedBG > 0 {
		// many background handlers that take for ever (they run for the server's
		// greeting and are still running when the session ends): they are no
		// concern of the event loop's, however many there are
		e.S.Count("probe.many-background-handlers-still-running")
		for k := 0; k < parkedBG; k++ {
			c.HandleBG("NOTICE", client.HandlerFunc(func(*client.Conn, *client.Line) {
				simrt.Block("parked-bg", "the end of the session", func() bool { return sessionOver })
			}))
		}
	}
	st := c.StateTracker()
	if lateTrack {
		st = state.NewTracker("nobody-yet") // (never consulted: the handlers below stand aside until tracking is on)
		e.S.Count("probe.tracking-enabled-in-mid-session")
	}
	trafficStarted := false
	if g.Pct(40) {
		// user REGISTER handlers that take their time: they run on the goroutine
		// that called Connect, concurrently with the event loop handling the
		// first server lines
		for k := g.Range(2, 3); k > 0; k-- {
			c.HandleFunc(client.REGISTER, func(*client.Conn, *client.Line) {
				// still busy when the session's traffic starts, done some
				// scheduling steps into it
				simrt.BlockFor("track.register", "the session's traffic to start", time.Hour, func() bool { return trafficStarted })
				for i := e.S.Choose(4) * e.S.Choose(60); i > 0; i-- {
					simrt.Sleep(0)
				}
			})
		}
		e.S.Count("probe.slow-user-register-handlers")
	}
	if e.Prop == "C05" {
		welcomed := func(kind string) client.HandlerFunc {
			return func(c *client.Conn, l *client.Line) {
				if len(l.Args) == 0 || !trackingOn {
					return
				}
				me := st.Me()
				old := st.GetNick(reqNick)
				if kind == "bg" && len(net.sent) > welcomeMark {
					// a background handler runs in its own time: once later lines are
					// on the wire (a rename of the client, say) they may have been
					// applied already; nothing is claimed then.  (Evaluated after the
					// tracker calls, which are scheduling points.)
					return
				}
				e.Check()
				if me == nil || me.Nick != l.Args[0] || (reqNick != l.Args[0] && old != nil) {
					e.Violation(kind+"-handler-view", "a %s handler for the welcome line %q saw the tracker before the line was applied: Me()=%v, %q still tracked=%v", kind, l.Raw, me, reqNick, old != nil)
				}
			}
		}
		c.Handle("001", welcomed("fg"))
		c.HandleBG("001", welcomed("bg"))
		// one-shot handlers (the first act of the invocation is to remove the
		// handler): the invocation is a foreground handler like any other, and the
		// tracker stands still until it returns
		for _, v := range []string{"JOIN", "353", "MODE", "NICK"} {
			if !g.Pct(30) {
				continue
			}
			var rm client.Remover
			fired := false
			e.S.Count("probe.one-shot-handler-reads-the-tracker")
			rm = c.HandleFunc(v, func(c *client.Conn, l *client.Line) {
				if fired || !trackingOn {
					return
				}
				fired = true
				rm.Remove()
				before := st.String()
				for i := g.S.Choose(4) * 6; i > 0; i-- {
					simrt.Sleep(0)
				}
				simrt.Sleep(time.Duration(g.S.Choose(4)) * time.Millisecond)
				after := st.String()
				e.Check()
				if canonDump(before) != canonDump(after) {
					e.Violation("fg-handler-intruded", "a foreground handler that had removed itself (one-shot) was still running when the tracker changed: a later line was applied\nat entry: %s\nat exit:  %s", canonDump(before), canonDump(after))
				}
			})
		}
		// CONNECTED is raised on behalf of the welcome line, before any later line
		// is handled: while its foreground handlers run the tracker stands still
		c.HandleFunc(client.CONNECTED, func(c *client.Conn, l *client.Line) {
			if !trackingOn {
				return
			}
			before := st.String()
			for i := g.S.Choose(4) * 6; i > 0; i-- {
				simrt.Sleep(0)
			}
			simrt.Sleep(time.Duration(g.S.Choose(4)) * time.Millisecond)
			after := st.String()
			e.Check()
			if canonDump(before) != canonDump(after) {
				e.Violation("fg-handler-intruded", "while a foreground CONNECTED handler was running the tracker changed (a later line was applied):\nat entry: %s\nat exit:  %s", canonDump(before), canonDump(after))
			}
		})
	}
	discs := 0
	c.HandleFunc(client.DISCONNECTED, func(*client.Conn, *client.Line) { discs++ })
	reconnectsLeft := 0
	if e.Prop == "C13" && g.Pct(30) {
		reconnectsLeft = g.Range(1, 2)
	}

	ended := false
	endHow, endAt := 0, -1
	endReconnect := false
	startEnd := func() {
		if ended {
			return
		}
		ended = true
		e.S.Count("fault.connection-ended-mid-session")
		e.S.Spawn("ender", func() {
			for i := e.S.Choose(30); i > 0; i-- {
				simrt.Sleep(0)
			}
			switch endHow {
			case 0:
				c.Close()
			case 1:
				net.l.CloseByServer()
			default:
				net.l.Reset()
			}
		})
		if endReconnect {
			// an application that reconnects as soon as Connected() is false,
			// without waiting for DISCONNECTED
			e.S.Spawn("reconnect-poller", func() {
				for k := 0; k < 400; k++ {
					if !c.Connected() {
						e.S.Count("probe.reconnect-while-teardown-may-be-in-progress")
						c.Connect()
						return
					}
					simrt.Sleep(time.Duration(e.S.Choose(3)) * time.Millisecond)
				}
			})
		}
	}
	// ---- C05 handlers ----
	if e.Prop == "C05" {
		check := func(kind string) client.HandlerFunc {
			return func(c *client.Conn, l *client.Line) {
				var i int
				if _, err := fmt.Sscanf(l.Tags["seq"], "%d", &i); err != nil || i >= len(net.sent) {
					return
				}
				sl := net.sent[i]
				if !sl.stateful {
					return
				}
				var ns, cs []string
				for _, x := range sl.names {
					if strings.HasPrefix(x, "#") {
						cs = append(cs, x)
					} else {
						ns = append(ns, x)
					}
				}
				if kind == "fg" && endAt >= 0 && i >= endAt {
					startEnd()
				}
				if kind == "fg" {
					// a sample of the rest of the universe too
					ns = append(ns, names[g.S.Choose(len(names))], "me")
					cs = append(cs, fmt.Sprintf(chanFmt, g.S.Choose(nChans)))
					e.Check()
					// once the connection is ending, undispatched lines may be
					// discarded, so the cumulative model state no longer applies
					if !ended {
						if d := compareView(st, sl.view, ns, cs); d != "" && !ended {
							e.Violation("fg-handler-view", "inside a foreground handler for line %d (%s) the tracker is not exactly the state after that line: %s", i, sl.text, d)
						}
					}
					// always: while this foreground handler runs nothing else may be
					// applied to the tracker (no later line intrudes), also while the
					// connection is being torn down
					snap := func() string {
						var b strings.Builder
						for _, cn := range cs {
							b.WriteString(encChan(st.GetChannel(cn), true) + ";")
						}
						for _, nn := range ns {
							b.WriteString(encNickNoModes(st.GetNick(nn)) + ";")
						}
						return b.String()
					}
					before := snap()
					if ended || g.S.Choose(5) == 0 {
						// park on the fake clock: everything else runs until it blocks
						// while this handler is still "running"
						simrt.Sleep(10 * time.Millisecond)
					} else {
						for k := g.S.Choose(4) * 10; k > 0; k-- {
							simrt.Sleep(0)
						}
					}
					if after := snap(); after != before {
						e.Violation("fg-handler-intruded", "the tracker changed while a foreground handler for line %d (%s) was running: a later line was applied\n before: %s\n after:  %s", i, sl.text, before, after)
					}
					return
				}
				// background: may run late, never early.  The line's own effect must
				// be visible unless a later line (already sent) touched the same names.
				if ended {
					return // lines may be discarded while the connection ends: the cumulative state no longer applies
				}
				d := compareView(st, sl.view, ns, cs)
				// sampled AFTER the queries (they are scheduling points): a line sent
				// while they ran may already have been applied
				sentNow := len(net.sent)
				if d == "" || ended {
					e.Check()
					return
				}
				for j := i + 1; j < sentNow && j < len(net.sent); j++ {
					if net.sent[j].stateful {
						return // a later state-changing line was already on the wire: nothing claimed
					}
				}
				// nothing later touched these names: re-read after the fact is no
				// excuse either, the handler must already see the line applied
				e.Check()
				e.Violation("bg-handler-early", "inside a background handler for line %d (%s) the tracker does not reflect that line yet (and no later state-changing line had been sent): %s", i, sl.text, d)
			}
		}
		// several handlers per verb and set, some of them slow: a dispatch that
		// does not wait for all of them lets a later line intrude
		slow := func(k int, h client.HandlerFunc) client.HandlerFunc {
			return func(c *client.Conn, l *client.Line) {
				for i := 0; i < k; i++ {
					simrt.Sleep(0)
				}
				h(c, l)
			}
		}
		for _, v := range []string{"JOIN", "PART", "KICK", "QUIT", "NICK", "MODE", "TOPIC", "353", "352", "332", "324", "PING"} {
			for k := g.Range(1, 3); k > 0; k-- {
				c.Handle(v, slow(g.W(3, 1, 1, 1)*g.Range(1, 25), check("fg")))
			}
			for k := g.Range(1, 2); k > 0; k-- {
				c.HandleBG(v, slow(g.W(3, 1)*g.Range(1, 10), check("bg")))
			}
		}
	}
	// (Connect returns only when its REGISTER handlers have: it is called from a
	// task of its own so that slow ones overlap the session)
	var connErr error
	e.S.Spawn("connector", func() { connErr = c.Connect() })
	simrt.BlockFor("track", "welcome", time.Hour, func() bool { return ready || connErr != nil })
	if connErr != nil {
		e.Violation("harness-connect", "Connect failed: %v", connErr)
		return
	}
	if co.Recover == nil || g.Bool() {
		simrt.Settle(time.Second)
	} else {
		// (a bouncer or a forced auto-join: the first state-changing lines follow
		// the welcome at once, while Connect may still be on its way out)
		e.S.Count("probe.state-changing-lines-straight-after-the-welcome")
	}
	if lateTrack {
		simrt.Settle(time.Second)
		net.l.SendLine(":" + net.me.nick + "!sim@host.sim JOIN #pre")
		simrt.Settle(2 * time.Second)
		c.EnableStateTracking()
		st = c.StateTracker()
		trackingOn = true
	}
	if g.Pct(30) {
		// a watchdog that keeps calling Connect and EnableStateTracking on the
		// live client: both are refused / no-ops and must not disturb the
		// processing of lines that arrive meanwhile
		e.S.Count("fault.redundant-connect-and-enable-calls")
		e.DialDeny = func() error {
			if t := e.S.Self(); t != nil && strings.HasPrefix(t.ID, "watchdog") {
				return errors.New("sim: connection refused")
			}
			return nil
		}
		e.S.Spawn("watchdog", func() {
			for k := 0; k < 1500 && !ended && !e.S.Failed(); k++ {
				if e.S.Choose(2) == 0 {
					c.Connect()
				} else {
					c.EnableStateTracking()
				}
				if e.S.Choose(4) == 0 {
					simrt.Sleep(time.Duration(e.S.Choose(3)) * time.Millisecond)
				} else {
					simrt.Sleep(0)
				}
			}
		})
	}

	uniq := 0
	nickSeq := 0
	netjoins := 0
	settle := func() {
		// quiescence: everything the server sent has been read and dispatched,
		// and the client's own (possibly flood-limited) queries have drained: no
		// new client line for 15 simulated seconds (a flood sleep is < 7 s)
		for round := 0; round < 2000; round++ {
			n0 := clientLines
			simrt.Settle(15 * time.Second)
			if ended || net.l.ClientEnd || (net.l.Pending() == 0 && clientLines == n0) {
				return
			}
		}
		e.Violation("harness-no-quiescence", "the session did not quiesce\n%s", e.S.TaskDump())
	}
	universe := func() ([]string, []string) {
		return sortedKeys(net.allNicks), sortedKeys(net.allChans)
	}
	invariants := func(where string) bool {
		ns, cs := universe()
		me := st.Me()
		if me == nil || st.GetNick(me.Nick) == nil {
			e.Violation("lost-own-entry", "%s: the tracker lost the client's own entry (Me()=%v)", where, me)
			return false
		}
		for _, cn := range cs {
			if ch := st.GetChannel(cn); ch != nil {
				if _, ok := ch.Nicks[me.Nick]; !ok {
					e.Violation("channel-without-client", "%s: channel %s is tracked but the client (%s) is not in it: %s", where, cn, me.Nick, encChan(ch, true))
					return false
				}
			}
		}
		for _, nn := range ns {
			if nk := st.GetNick(nn); nk != nil && nn != me.Nick && len(nk.Channels) == 0 {
				e.Violation("stray-nick", "%s: nick %q is tracked although it shares no channel with the client", where, nn)
				return false
			}
		}
		e.Check()
		return true
	}
	compare := func(where string) bool {
		ns, cs := universe()
		e.Check()
		if d := compareView(st, net.v, ns, cs); d != "" {
			e.Violation("tracker-differs", "%s (after %d server lines; last: %s): %s", where, len(net.sent), lastText(net.sent), d)
			return false
		}
		return invariants(where)
	}
	conformant := true
	if e.Prop == "C05" && g.Pct(40) {
		// the connection ends while lines are in flight and a foreground handler
		// is running: whatever is still dispatched must obey the same ordering
		// towards the tracker.  The end is started from inside the handler of a
		// chosen line (by another task: Close from a handler is outside the claim).
		endHow = g.Intn(3)
		endAt = g.Range(2, 3*nEvents+2)
		endReconnect = g.Bool()
	}
	for ev := 0; ev < nEvents && !e.S.Failed() && !ended; ev++ {
		if ev == 1 {
			trafficStarted = true
		}
		// answer a pending query now and then
		if len(queries) > 0 && g.S.Choose(3) == 0 {
			q := queries[0]
			queries = queries[1:]
			if strings.HasPrefix(q, "MODE ") {
				net.reply324(strings.Fields(q)[1])
			} else {
				net.replyWho(strings.Fields(q)[1])
			}
		}
		var onChans, offChans []*netChan
		for _, ch := range net.chans {
			if net.meOn(ch) {
				onChans = append(onChans, ch)
			} else {
				offChans = append(offChans, ch)
			}
		}
		pick := func(cs []*netChan) *netChan { return cs[g.S.Choose(len(cs))] }
		if reconnectsLeft > 0 && !adversary && g.S.Choose(12) == 0 {
			// the link drops and the client connects again: for the network the
			// client quit (it is on no channel any more); the tracker must start
			// over and follow the new session
			reconnectsLeft--
			e.S.Count("fault.reconnect-mid-session")
			for len(queries) > 0 {
				queries = queries[1:]
			}
			d0 := discs
			if g.S.Choose(2) == 0 {
				net.l.CloseByServer()
			} else {
				c.Close()
			}
			if !simrt.BlockFor("track", "DISCONNECTED", time.Hour, func() bool { return discs > d0 }) {
				e.Violation("harness", "no DISCONNECTED after the link dropped\n%s", e.S.TaskDump())
				return
			}
			for _, ch := range net.chans {
				delete(ch.members, net.me)
				if len(ch.members) == 0 {
					ch.topic, ch.key, ch.limit, ch.flags = "", "", 0, map[byte]bool{}
				}
			}
			net.v = &view{me: net.me.nick, nicks: map[string]*vNick{net.me.nick: {ident: "sim", host: "host.sim", name: "Sim User"}}, chans: map[string]*vChan{}}
			net.who352 = map[string]bool{}
			queries = nil
			ready = false
			if err := c.Connect(); err != nil {
				e.Violation("harness-connect", "reconnect failed: %v", err)
				return
			}
			simrt.BlockFor("track", "welcome", time.Hour, func() bool { return ready })
			simrt.Settle(time.Second)
			queries = nil
			continue
		}
		switch k := g.S.ChooseW(4, 2, 5, 4, 2, 3, 3, 6, 1, 2, 1, 2); {
		case k == 10 && len(onChans) > 0 && netjoins < 1 && !adversary:
			// a netjoin: dozens of users the client has never seen join at once,
			// so that its questions about them pile up in the output queue
			netjoins++
			ch := pick(onChans)
			nj := 25 + g.S.Choose(30)
			e.S.Count("fault.netjoin-burst")
			for j := 0; j < nj; j++ {
				nickSeq++
				nm := fmt.Sprintf("nj%d", nickSeq)
				u := &netUser{nick: nm, ident: "id" + nm, host: nm + ".host.sim", name: "Real " + nm}
				net.users = append(net.users, u)
				net.evJoinOther(u, ch)
			}
		case k == 0 && len(offChans) > 0:
			net.evJoinMe(pick(offChans))
		case k == 1 && len(onChans) > 0:
			net.evLeave(net.me, pick(onChans), g.S.Choose(3) == 0)
		case k == 2 && len(onChans) > 0: // other joins
			ch := pick(onChans)
			var cand []*netUser
			for _, u := range net.users[1:] {
				if _, on := ch.members[u]; !on && !u.quit {
					cand = append(cand, u)
				}
			}
			if len(cand) > 0 {
				net.evJoinOther(cand[g.S.Choose(len(cand))], ch)
			}
		case k == 3 && len(onChans) > 0: // other leaves
			ch := pick(onChans)
			if u := net.pickOther(ch, net.me); u != nil {
				net.evLeave(u, ch, g.S.Choose(3) == 0)
			}
		case k == 4: // quit of a visible user, who later comes back as a new connection
			var cand []*netUser
			for _, u := range net.users[1:] {
				if !u.quit && net.v.nicks[u.nick] != nil {
					cand = append(cand, u)
				}
			}
			if len(cand) > 0 {
				u := cand[g.S.Choose(len(cand))]
				net.evQuit(u)
				u.quit = false // reconnects (not on any channel)
				delete(net.who352, u.nick)
			}
		case k == 5: // nick change of a visible user (or of the client)
			var cand []*netUser
			for _, u := range net.users {
				if !u.quit && net.v.nicks[u.nick] != nil {
					cand = append(cand, u)
				}
			}
			if len(cand) > 0 {
				u := cand[g.S.Choose(len(cand))]
				nickSeq++
				neu := fmt.Sprintf("%s%d", strings.TrimRight(u.nick, "0123456789"), nickSeq)
				if u == net.me {
					neu = fmt.Sprintf("me%d", nickSeq)
				}
				if g.S.Choose(4) == 0 {
					// nothing but the letter case changes (servers allow it: the
					// user keeps the nick and respells it)
					b := []byte(u.nick)
					for i, c := range b {
						if c >= 'a' && c <= 'z' {
							b[i] = c - 32
							break
						} else if c >= 'A' && c <= 'Z' {
							b[i] = c + 32
							break
						}
					}
					if string(b) != u.nick {
						neu = string(b)
						e.S.Count("probe.case-only-nick-change")
					}
				}
				net.evNick(u, neu)
			}
		case k == 6 && len(onChans) > 0:
			ch := pick(onChans)
			uniq++
			// free text is kept byte for byte, blanks at its end included
			topic := fmt.Sprintf("topic %d of %s", uniq, ch.name) + []string{"", "", "", "", " ", "\t", "  \t ", " :-) welcome", " rules: be nice :: no spam"}[g.S.Choose(9)]
			if g.S.Choose(20) == 0 {
				topic = []string{" ", "\t ", "   "}[g.S.Choose(3)] // nothing but blanks is still a topic
			}
			if g.S.Choose(5) == 0 {
				topic = "" // the topic is cleared
			}
			net.evTopic(ch, net.sortedMembers(ch)[g.S.Choose(len(ch.members))], topic)
		case k == 7 && len(onChans) > 0:
			ch := pick(onChans)
			net.evMode(ch, net.sortedMembers(ch)[g.S.Choose(len(ch.members))], &uniq)
		case k == 8 && adversary:
			conformant = false
			net.hostile(&uniq)
		case k == 11:
			// a line that changes nothing (the server's PING): its handlers have
			// their place in the order of lines like those of any other line - the
			// tracker shows everything before it and nothing after it
			uniq++
			names := []string{net.me.nick}
			if len(onChans) > 0 {
				ch := pick(onChans)
				names = append(names, ch.name, net.sortedMembers(ch)[g.S.Choose(len(ch.members))].nick)
			}
			e.S.Count("probe.state-neutral-line-with-handlers")
			net.send(fmt.Sprintf("PING :keepalive%d", uniq), names, true)
		default:
			// a checkpoint in the middle of the session
			if g.S.Choose(3) == 0 {
				for len(queries) > 0 {
					q := queries[0]
					queries = queries[1:]
					if strings.HasPrefix(q, "MODE ") {
						net.reply324(strings.Fields(q)[1])
					} else {
						net.replyWho(strings.Fields(q)[1])
					}
				}
				settle()
				if e.Prop == "C13" {
					if conformant {
						if !compare("mid-session checkpoint") {
							return
						}
					} else if !invariants("mid-session checkpoint (with non-conformant lines)") {
						return
					}
				}
			}
		}
		if g.S.Choose(4) == 0 {
			simrt.Sleep(time.Duration(g.S.Choose(3)) * time.Millisecond)
		}
	}
	trafficStarted = true
	if ended {
		simrt.Settle(2 * time.Minute)
		c.Close()
		return
	}
	// final: answer everything, settle, compare
	for round := 0; round < 6; round++ {
		settle()
		if len(queries) == 0 {
			break
		}
		for len(queries) > 0 {
			q := queries[0]
			queries = queries[1:]
			if strings.HasPrefix(q, "MODE ") {
				net.reply324(strings.Fields(q)[1])
			} else {
				net.replyWho(strings.Fields(q)[1])
			}
		}
	}
	settle()
	e.Notef("users=%d channels=%d events=%d server-lines=%d list-modes=%v adversary=%v flood-protection=%v", nUsers, nChans, nEvents, len(net.sent), net.listModes, adversary, !flood)
	if e.Prop == "C13" && !e.S.Failed() {
		if conformant {
			compare("end of session")
			// the modes a channel already has and the user@host of the users found on
			// it are revealed only to a client that asks: after each of its own joins
			// the client must have sent MODE <channel> and WHO <channel> - also when
			// it has been on that channel before
			for _, ch := range net.chans {
				e.Check()
				if net.meOn(ch) && dials == 1 && !e.S.Failed() && (!net.askedMode[ch.name] || !net.askedWho[ch.name]) {
					e.Violation("tracker-differs", "the client is on %s but has not asked the server about it since it (last) joined: MODE sent=%v WHO sent=%v - it cannot know the channel's modes and its users' details", ch.name, net.askedMode[ch.name], net.askedWho[ch.name])
				}
			}
		} else {
			invariants("end of session (with non-conformant lines)")
		}
	}
	c.Close()
}

func lastText(s []*sentLine) string {
	if len(s) == 0 {
		return "-"
	}
	return s[len(s)-1].text
}

// hostile sends a non-conformant line (second sentence of C13).
func (n *network) hostile(uniq *int) {
	g := n.g
	nicks := append(sortedKeys(n.allNicks), "ghost", n.v.me, "")
	chans := append(sortedKeys(n.allChans), "#nowhere", "#c0", "")
	nk := func() string { return nicks[g.S.Choose(len(nicks))] }
	ch := func() string { return chans[g.S.Choose(len(chans))] }
	var line string
	switch g.S.Choose(14) {
	case 0:
		line = fmt.Sprintf(":%s!x@y JOIN %s", nk(), ch())
	case 1:
		line = fmt.Sprintf(":%s!x@y PART %s", nk(), ch())
	case 2:
		line = fmt.Sprintf(":%s!x@y KICK %s %s :x", nk(), ch(), nk())
	case 3:
		line = fmt.Sprintf(":%s!x@y QUIT :x", nk())
	case 4:
		line = fmt.Sprintf(":%s!x@y NICK %s", nk(), nk())
	case 5:
		line = fmt.Sprintf(":irc.sim 353 %s = %s :%s @%s +%s %s", n.v.me, ch(), nk(), nk(), nk(), "@")
	case 6:
		line = fmt.Sprintf(":irc.sim 352 %s %s id host irc.sim %s H :0 name", n.v.me, ch(), nk())
	case 7:
		line = fmt.Sprintf(":%s!x@y MODE %s +o-v+k %s %s %s", nk(), ch(), nk(), nk(), nk())
	case 8:
		line = fmt.Sprintf(":irc.sim 001 %s :Welcome %s!a@b", nk(), nk())
	case 9:
		line = fmt.Sprintf(":%s!x@y MODE %s +i", nk(), nk())
	case 10:
		line = fmt.Sprintf(":%s!x@y TOPIC %s :t", nk(), ch())
	case 11:
		line = fmt.Sprintf(":irc.sim 433 %s %s :in use", nk(), nk())
	case 12:
		line = fmt.Sprintf(":irc.sim 324 %s %s +kl x", n.v.me, ch())
	default:
		line = fmt.Sprintf(":%s!x@y NICK", nk())
	}
	n.e.S.Count("fault.non-conformant-line")
	for _, x := range []string{"ghost", "#nowhere"} {
		if strings.HasPrefix(x, "#") {
			n.allChans[x] = true
		} else {
			n.allNicks[x] = true
		}
	}
	n.l.SendLine(line)
}
