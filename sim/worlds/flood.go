package worlds

import (
	"context"
	"fmt"
	"strings"
	"time"

	"github.com/fluffle/goirc/client"

	"verifsim/simnet"
	"verifsim/simrt"
)

// W-flood: timed sends under the fake clock.  Decides C10.
func init() {
	register(&World{Name: "flood", Run: floodRun, MaxSteps: 2000000, MaxSimTime: 100 * time.Hour})
}

type floodLine struct {
	text    string
	enq     time.Duration // when the harness handed it to the client
	floodOn bool          // Config.Flood at that time (phases are separated by quiescence)
	pieces  int           // long messages: lines seen on the wire
}

func charge(n int) time.Duration { return 2*time.Second + time.Duration(n)*time.Second/120 }

// floodFault: a line's write fails (possibly after an idle stretch), the
// connection is torn down, the same client reconnects and sends a burst.  The
// penalty is the client's, not the connection's: the lines of the second
// connection must be written when Hybrid's rule says, whether or not the line
// whose write failed counts as sent (the statement does not say).
func floodFault(e *Env, g G) {
	created := e.S.Now()
	dial := 0
	s := startSession(e, ClientOpts{Nick: "me", Flood: false}, func(l *simnet.Link) {
		dial++
		l.ChunkMode = g.Intn(4)
		if dial == 1 {
			l.WriteErrAtOp = 3
			l.ShortWrite = g.Bool()
		}
	})
	e.S.Count("fault.write-error-then-reconnect-under-flood-protection")
	discs := 0
	s.c.HandleFunc(client.DISCONNECTED, func(*client.Conn, *client.Line) { discs++ })
	type ev struct {
		enq  time.Duration
		ln   int
		seen bool          // reached the wire
		t    time.Duration // when
	}
	var evs []*ev
	at1 := e.S.Now()
	if !s.connect() {
		return
	}
	l1 := s.l
	simrt.Sleep([]time.Duration{0, 3 * time.Second, 7 * time.Second, 12 * time.Second}[g.Intn(4)])
	failLen := []int{0, 30, 200, 510}[g.Intn(4)]
	failAt := e.S.Now()
	s.c.Raw(strings.Repeat("f", failLen))
	if !simrt.BlockFor("flood.fault", "DISCONNECTED after the write error", 10*time.Minute, func() bool { return discs > 0 }) {
		e.Violation("stall", "the injected write error did not end the connection\n%s", e.S.TaskDump())
		return
	}
	if len(l1.Writes) < 2 {
		e.Violation("harness", "expected NICK and USER on the first connection, got %d writes", len(l1.Writes))
		return
	}
	for _, w := range l1.Writes[:2] { // (a third record is the accepted part of the failing write)
		evs = append(evs, &ev{enq: at1, ln: len(strings.TrimSuffix(w.Data, "\r\n")), seen: true, t: w.T})
	}
	failed := &ev{enq: failAt, ln: failLen}
	simrt.Sleep([]time.Duration{0, time.Second, 5 * time.Second}[g.Intn(3)])
	s.ready = false
	at2 := e.S.Now()
	if err := s.c.Connect(); err != nil {
		e.Violation("harness-connect", "reconnect failed: %v", err)
		return
	}
	simrt.BlockFor("flood.fault", "welcome", time.Hour, func() bool { return s.ready })
	n := g.Range(3, 12)
	var burst []*ev
	for k := 0; k < n; k++ {
		ln := []int{0, 20, 30, 120, 510}[g.Intn(5)]
		if g.S.Choose(4) == 0 {
			simrt.Sleep(time.Duration(g.S.Choose(3000)) * time.Millisecond)
		}
		burst = append(burst, &ev{enq: e.S.Now(), ln: ln})
		s.c.Raw(strings.Repeat("b", ln))
	}
	l2 := s.l
	if !simrt.BlockFor("flood.fault", "the burst to be written", time.Duration(n+2)*8*time.Second+time.Minute, func() bool { return len(l2.Writes) >= n+2 }) {
		e.Violation("harness-lines-missing", "%d of %d lines of the second connection were written\n%s", len(l2.Writes), n+2, e.S.TaskDump())
		return
	}
	for i, w := range l2.Writes[:n+2] {
		x := &ev{enq: at2, ln: len(strings.TrimSuffix(w.Data, "\r\n")), seen: true, t: w.T}
		if i >= 2 {
			x.enq = burst[i-2].enq
		}
		evs = append(evs, x)
	}
	explain := func(chargeFailed bool, extra int) (bool, string) {
		P, last, prev := time.Duration(0), created, time.Duration(-1)
		seq := append([]*ev{}, evs[:2]...)
		if chargeFailed {
			seq = append(seq, failed)
		}
		seq = append(seq, evs[2:]...)
		for i, x := range seq {
			d := x.enq
			if prev > d {
				d = prev
			}
			c := charge(x.ln + extra)
			P += c - (d - last)
			if P < 0 {
				P = 0
			}
			last = d
			want := d
			if P > 10*time.Second {
				want = d + c
			}
			if !x.seen {
				prev = want
				continue
			}
			diff := x.t - want
			if diff < 0 {
				diff = -diff
			}
			if diff > time.Microsecond {
				return false, fmt.Sprintf("line %d of the history (%d bytes, handed over at %v): written at %v, the rule gives %v (penalty %v after it)", i, x.ln, x.enq, x.t, want, P)
			}
			prev = x.t
		}
		return true, ""
	}
	e.Check()
	var why string
	for _, cf := range []bool{true, false} {
		for _, extra := range []int{0, 2} {
			ok, w := explain(cf, extra)
			if ok {
				s.c.Close()
				return
			}
			if cf && extra == 0 {
				why = w
			}
		}
	}
	e.Violation("penalty-rule", "a %d-byte line's write failed, the client reconnected and sent %d lines: their write times follow Hybrid's rule neither with the failed line counted nor without it; counting it: %s", failLen, n, why)
}

// wireLine is one line as the client wrote it: when its Write call was made,
// and when the last of its bytes had been accepted (a slow reader makes the
// socket take a line in parts).
type wireLine struct {
	start, end time.Duration
	data       string
}

func wireLines(l *simnet.Link) []wireLine {
	var out []wireLine
	open := false
	for _, w := range l.Writes {
		if !open {
			out = append(out, wireLine{start: w.Start})
			open = true
		}
		x := &out[len(out)-1]
		x.data += w.Data
		x.end = w.T
		if strings.HasSuffix(x.data, "\r\n") {
			open = false
		}
	}
	if open {
		out = out[:len(out)-1] // still on its way
	}
	return out
}

func floodRun(e *Env) {
	g := G{e.S}
	if g.Pct(10) {
		floodFault(e, g)
		return
	}
	created := e.S.Now()
	startFlood := g.Pct(15)
	// (no SASL knob here: it would add CAP LS to the registration, and this
	// world accounts for every line on the wire)
	splitLen := []int{0, 50, 2000}[g.Intn(3)]
	effSplit := splitLen
	if effSplit == 0 {
		effSplit = 450
	}
	// some calls are messages longer than SplitLen: the client turns each into
	// several lines, and every one of them is a line like any other to the rule
	// (only where the resulting lines stay within the 510 bytes the claim is about)
	splitRun := g.Pct(30) && effSplit <= 450
	byTarget := map[string]*floodLine{}
	splitCalls := 0
	// a server that reads slowly: now and then it leaves what has been written
	// in the socket for a few seconds, so a write takes that long.  Time is time:
	// the penalty decays while the sender waits for the socket like at any other
	// moment
	slowReader := g.Pct(20)
	s := startSession(e, ClientOpts{Nick: "me", Flood: startFlood, Timeout: []time.Duration{0, time.Second, 10 * time.Minute}[g.Intn(3)], SplitLen: splitLen},
		func(l *simnet.Link) {
			l.ChunkMode = g.Intn(4)
			if slowReader {
				l.Window = []int{16, 100, 600}[g.Intn(3)]
			}
		})
	if slowReader {
		e.S.Count("fault.server-reads-slowly-under-flood-protection")
		s.pause = func() {
			if e.S.Choose(5) == 0 {
				simrt.Sleep(time.Duration(1+e.S.Choose(8)) * 500 * time.Millisecond)
			}
		}
	}
	// idle time between creating the client and connecting is part of the
	// history: the penalty clock starts at creation
	preGap := []time.Duration{0, 0, time.Second, 30 * time.Second}[g.Intn(4)]
	simrt.Sleep(preGap)
	connectAt := e.S.Now()
	// in some runs the application cancels the context it connected with while
	// lines are being held back: whatever is still written must be written at
	// the time the rule gives, never earlier
	cancelRun := g.Pct(12)
	cancelDelay := []time.Duration{100 * time.Millisecond, time.Second, 3 * time.Second, 7 * time.Second, 15 * time.Second}[g.Intn(5)]
	ctx, cancel := context.WithCancel(context.Background())
	defer cancel()
	disconnected := false
	s.c.HandleFunc(client.DISCONNECTED, func(*client.Conn, *client.Line) { disconnected = true })
	if cancelRun {
		e.S.Count("fault.context-cancelled-during-a-flood-hold")
		if err := s.c.ConnectContext(ctx); err != nil {
			e.Violation("harness-connect", "Connect failed: %v", err)
			return
		}
		simrt.BlockFor("session", "welcome", time.Hour, func() bool { return s.ready })
		simrt.Settle(time.Second)
	} else if !s.connect() {
		return
	}
	nsenders := 1
	if g.Pct(25) {
		nsenders = g.Range(2, 4)
	}
	// what the lines are made of: the rule counts what goes over the wire, i.e.
	// bytes (the "characters" of the protocol's 512-character limit), so text in
	// a multi-byte encoding is charged for its bytes
	unit := []string{"y", "\u00e9", "\u65e5", "\U0001F60A"}[g.W(7, 1, 1, 1)]
	fill := func(n int) string {
		if n <= 0 {
			return ""
		}
		return strings.Repeat(unit, n/len(unit)) + strings.Repeat("y", n%len(unit))
	}
	gaps := []time.Duration{0, 0, 0, 100 * time.Millisecond, time.Second, 2100 * time.Millisecond, 2500 * time.Millisecond, 5 * time.Second, 12 * time.Second, time.Minute, 5 * time.Minute}
	issued := map[string]*floodLine{}
	var order []*floodLine // issue order for the single-sender case (texts may repeat)
	floodNow := startFlood
	phases := g.Range(1, 4)
	if cancelRun {
		phases = 1
	}
	total := 0
	seq := 0
	for ph := 0; ph < phases && !e.S.Failed(); ph++ {
		n := []int{1, 2, 4, 6, 8, 12, 20, 40, 80}[g.Intn(9)]
		if total+n > 90 {
			n = 90 - total
		}
		if n <= 0 {
			break
		}
		total += n
		// line lengths for this phase
		lenKind := g.Intn(5)
		done := 0
		for t := 0; t < nsenders; t++ {
			cnt := n / nsenders
			if t == 0 {
				cnt += n % nsenders
			}
			t := t
			// draw the per-line plan up front (plan vector), execute in the task
			type item struct {
				ln     int
				gap    time.Duration
				prefix string
				long   int // > 0: a Privmsg/Notice of this many bytes of text
				notice bool
			}
			prefixes := []string{"", "", "", "PASS ", "PONG :", "PING :", "QUIT :", "PRIVMSG #c :", "JOIN ", "\x01", "CAP END", "AUTHENTICATE "}
			var items []item
			for k := 0; k < cnt; k++ {
				var ln int
				switch lenKind {
				case 0:
					ln = g.Range(0, 510)
				case 1:
					ln = 0
				case 2:
					ln = 510
				case 3:
					ln = g.Range(0, 20)
				default:
					ln = []int{0, 1, 59, 60, 119, 120, 121, 240, 509, 510}[g.Intn(10)]
				}
				if nsenders > 1 && ln < 14 {
					ln = 14
				}
				it := item{ln: ln, gap: gaps[g.Intn(len(gaps))], prefix: prefixes[g.Intn(len(prefixes))]}
				if splitRun && g.Pct(35) {
					it.long = g.Range(effSplit+1, effSplit*9)
					if it.long > 3600 {
						it.long = 3600
					}
					it.notice = g.Bool()
				}
				items = append(items, it)
			}
			run := func() {
				for _, it := range items {
					simrt.Sleep(it.gap)
					seq++
					if it.long > 0 {
						target := fmt.Sprintf("#fl%d", seq)
						var b strings.Builder
						for b.Len() < it.long {
							b.WriteString([]string{"lorem", "ipsum-dolor", "x", "consectetur", strings.Repeat("w", 70)}[(seq+b.Len())%5])
							b.WriteByte(' ')
						}
						byTarget[target] = &floodLine{text: target, enq: e.S.Now(), floodOn: floodNow}
						splitCalls++
						if it.notice {
							s.c.Notice(target, b.String()[:it.long])
						} else {
							s.c.Privmsg(target, b.String()[:it.long])
						}
						continue
					}
					var text string
					if nsenders > 1 {
						text = fmt.Sprintf("P %d.%06d ", t, seq)
						text += fill(it.ln - len(text))
					} else {
						// the rule knows lengths only: the verb must make no difference
						text = it.prefix
						if len(text) > it.ln {
							text = text[:it.ln]
						}
						text += fill(it.ln - len(text))
					}
					fl := &floodLine{text: text, enq: e.S.Now(), floodOn: floodNow}
					issued[text] = fl
					order = append(order, fl)
					s.c.Raw(text)
				}
				done++
			}
			if nsenders == 1 && !cancelRun {
				run()
			} else {
				e.S.Spawn(fmt.Sprintf("flood-sender%d.%d", ph, t), run)
			}
		}
		if cancelRun {
			simrt.Sleep(cancelDelay)
			cancel()
			if !simrt.BlockFor("flood", "DISCONNECTED after the context was cancelled", time.Duration(total)*7*time.Second+10*time.Minute, func() bool { return disconnected }) {
				e.Violation("stall", "the connect context was cancelled but the connection did not end\n%s", e.S.TaskDump())
				return
			}
			simrt.Settle(10 * time.Second)
			break
		}
		simrt.BlockFor("flood", "senders", 50*time.Hour, func() bool { return done == nsenders })
		// quiescence: every line written (7 s per line covers every delay), but
		// without letting more time pass than needed: the next phase may start
		// while the penalty is still high
		want := total + 2
		if splitCalls > 0 {
			// how many lines a long message becomes is the client's business (C11):
			// wait until nothing has been written for longer than any line is held
			for quiet := 0; quiet < 2; {
				nw := len(wireLines(s.l))
				simrt.Sleep(20 * time.Second)
				if len(wireLines(s.l)) == nw {
					quiet++
				} else {
					quiet = 0
				}
			}
		} else if !simrt.BlockFor("flood", "all lines to be written", time.Duration(total)*7*time.Second+time.Minute, func() bool { return len(wireLines(s.l)) >= want }) {
			e.Violation("harness-lines-missing", "%d lines on the wire, expected %d (connection up, server reading)\n%s", len(wireLines(s.l)), want, e.S.TaskDump())
			return
		}
		simrt.WaitIdle()
		if ph+1 < phases {
			if g.Pct(60) {
				floodNow = !floodNow
				s.c.Config().Flood = floodNow
				e.S.Count("fault.flood-toggled")
			}
			simrt.Sleep(gaps[g.Intn(len(gaps))])
		}
	}
	if e.S.Failed() {
		return
	}
	e.Notef("lines=%d senders=%d phases=%d start-flood=%v gap-before-connect=%v", total, nsenders, phases, startFlood, preGap)

	// wire records: one Write per line (lines are shorter than the bufio buffer)
	type wire struct {
		t     time.Duration // the write began
		end   time.Duration // the write returned
		text  string
		enq   time.Duration
		flood bool
	}
	var ws []wire
	oi := 0
	splitLines := 0
	for _, w := range wireLines(s.l) {
		if strings.Count(w.data, "\r\n") != 1 {
			e.Violation("harness", "write %q is not one whole line", clip(w.data))
			return
		}
		text := strings.TrimSuffix(w.data, "\r\n")
		x := wire{t: w.start, end: w.end, text: text}
		var call *floodLine
		if f := strings.SplitN(text, " ", 3); len(f) == 3 && (f[0] == "PRIVMSG" || f[0] == "NOTICE") && strings.HasPrefix(f[1], "#fl") {
			call = byTarget[f[1]]
		}
		if strings.HasPrefix(text, "NICK ") || strings.HasPrefix(text, "USER ") {
			x.enq, x.flood = connectAt, startFlood
		} else if call != nil {
			x.enq, x.flood = call.enq, call.floodOn
			call.pieces++
			splitLines++
		} else if nsenders == 1 {
			if oi >= len(order) || order[oi].text != text {
				e.Violation("harness", "unexpected wire line %q", clip(text))
				return
			}
			x.enq, x.flood = order[oi].enq, order[oi].floodOn
			oi++
		} else {
			fl := issued[text]
			if fl == nil {
				e.Violation("harness", "unexpected wire line %q", clip(text))
				return
			}
			x.enq, x.flood = fl.enq, fl.floodOn
		}
		ws = append(ws, x)
	}
	if len(ws)-splitLines != total-splitCalls+2 && !cancelRun {
		e.Violation("harness-lines-missing", "%d lines on the wire besides those of long messages, expected %d (connection up, server reading)", len(ws)-splitLines, total-splitCalls+2)
		return
	}
	if !cancelRun {
		for _, t := range sortedKeys(byTarget) {
			fl := byTarget[t]
			if fl.pieces < 2 {
				e.Violation("harness-lines-missing", "the long message to %s became %d lines", t, fl.pieces)
				return
			}
		}
		if splitCalls > 0 {
			e.S.Count("probe.long-messages-split-under-flood-protection")
		}
	}

	// Oracle 3 and the reference model (oracle 2), under both character-count
	// conventions; the run must be explained entirely by one of them.
	explain := func(extra int) (bool, string) {
		P := time.Duration(0)
		last := created
		prevWrite := time.Duration(-1)
		for i, w := range ws {
			d := w.enq
			if prevWrite > d {
				d = prevWrite
			}
			var want time.Duration
			if w.flood {
				want = d
			} else {
				c := charge(len(w.text) + extra)
				P += c - (d - last)
				if P < 0 {
					P = 0
				}
				last = d
				want = d
				if P > 10*time.Second {
					want = d + c
					if extra == 0 {
						e.S.Count("probe.flood-delay-taken")
					}
				} else if P > 8*time.Second {
					if extra == 0 {
						e.S.Count("probe.penalty-just-below-threshold")
					}
				}
			}
			diff := w.t - want
			if diff < 0 {
				diff = -diff
			}
			if diff > time.Microsecond {
				return false, fmt.Sprintf("line %d (%d bytes, flood=%v, handed over at %v, previous write at %v): written at %v, the penalty rule gives %v (penalty %v after this line)",
					i, len(w.text), w.flood, w.enq, prevWrite, w.t, want, P)
			}
			prevWrite = w.end
		}
		return true, ""
	}
	ok0, why0 := explain(0)
	e.Check()
	if !ok0 {
		if ok2, _ := explain(2); !ok2 {
			e.Violation("penalty-rule", "write times do not follow Hybrid's rule (2 s + 1/120 s per character against a penalty decaying in real time, floored at 0; held back for its own charge exactly when the penalty exceeds 10 s): %s", why0)
			return
		}
	}
	// Oracle 1: the window bound, straight from the statement, over every run of
	// consecutive lines sent with flood protection on.
	for i := 0; i < len(ws); i++ {
		if ws[i].flood {
			continue
		}
		sum := time.Duration(0)
		for j := i; j < len(ws) && !ws[j].flood; j++ {
			sum += charge(len(ws[j].text))
			lim := (ws[j].t - ws[i].t) + 10*time.Second + charge(len(ws[i].text)+2) + charge(len(ws[j].text)+2)
			e.Check()
			if sum > lim {
				e.Violation("window-bound", "lines %d..%d: total charge %v exceeds the time between first and last write %v by more than 10 s plus two lines' charges", i, j, sum, ws[j].t-ws[i].t)
				return
			}
		}
	}
	s.c.Close()
}
