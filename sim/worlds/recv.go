package worlds

import (
	"fmt"
	"reflect"
	"strings"
	"time"
	"unicode"

	sasl "github.com/emersion/go-sasl"
	"github.com/fluffle/goirc/client"

	"verifsim/simnet"
	"verifsim/simrt"
)

// W-recv: grammar / adversary server -> real recv / runLoop / dispatch ->
// harness handlers.  Decides C01 and C02.
func init() {
	register(&World{Name: "recv", Run: recvRun, MaxSteps: 3000000, MaxSimTime: 100 * time.Hour})
}

func recvRun(e *Env) {
	if e.Prop == "C02" {
		recvAdversary(e)
	} else {
		recvGrammar(e)
	}
}

// ---------------------------------------------------------------------------
// message generator: components -> (wire text, expected Line)

const (
	tagKeyAlpha = "abcdefghijklmnopqrstuvwxyzABCDEFGHIJKLMNOPQRSTUVWXYZ0123456789-"
	hostAlpha   = "abcdefghijklmnopqrstuvwxyz0123456789.-"
	paramAlpha  = "abcdefghijklmnopqrstuvwxyzABCDEFGHIJKLMNOPQRSTUVWXYZ0123456789#&+!*?[]{}|^_-.,;=@/\\'\"$%()<>~`:"
	textAlpha   = paramAlpha + "       "
)

var tagEsc = strings.NewReplacer(";", "\\:", " ", "\\s", "\\", "\\\\", "\r", "\\r", "\n", "\\n")

func genTagValue(g G) string {
	n := g.W(3, 5, 3, 1)
	switch n {
	case 0:
		return ""
	case 1:
		n = g.Range(1, 6)
	case 2:
		n = g.Range(4, 30)
	default:
		n = g.Range(200, 600)
	}
	b := make([]byte, n)
	for i := range b {
		switch g.W(8, 2, 2, 2, 1, 1, 1, 1) {
		case 0:
			b[i] = alnum[g.Intn(len(alnum))]
		case 1:
			b[i] = ';'
		case 2:
			b[i] = ' '
		case 3:
			b[i] = '\\'
		case 4:
			b[i] = '\r'
		case 5:
			b[i] = '\n'
		case 6:
			b[i] = "srn:"[g.Intn(4)] // letters that look like escapes after a backslash
		default:
			b[i] = "=/,+"[g.Intn(4)]
		}
	}
	v := string(b)
	if g.Pct(30) {
		// tag values are UTF-8 text (display names, reasons): characters of two,
		// three and four bytes anywhere, also right behind an escape
		for k := g.Range(1, 4); k > 0; k-- {
			at := g.Intn(len(v) + 1)
			v = v[:at] + []string{"\u00e9", "\u00df", "\u65e5\u672c", "\U0001F60A", "\u0085", "\u00a0"}[g.Intn(6)] + v[at:]
		}
	}
	return v
}

func genParam(g G, first bool) string {
	n := g.W(6, 3, 1)
	switch n {
	case 0:
		n = g.Range(1, 8)
	case 1:
		n = g.Range(8, 40)
	default:
		n = g.Range(100, 400)
	}
	if g.Pct(25) {
		// parameters are octets: non-ASCII text (valid UTF-8 whose encodings
		// contain the bytes 0x85 / 0xA0, which are white space only as Latin-1
		// code points) and raw high bytes.  No Unicode white space: the claim
		// excludes it.
		special := []rune{0xc5, 0xe0, 0x445, 0x420, 0x4e05, 0x105, 0x3a0, 0x2005 + 0x100, 0x1f605}
		var u []byte
		for len(u) < n {
			switch g.Intn(5) {
			case 0:
				u = append(u, paramAlpha[g.Intn(len(paramAlpha)-1)])
			case 1:
				u = append(u, string(special[g.Intn(len(special))])...)
			case 2:
				r := rune(g.Range(0xa1, 0x2fff))
				if unicode.IsSpace(r) || r == 0x85 {
					r = 0xe9
				}
				u = append(u, string(r)...)
			case 3:
				u = append(u, byte(g.Range(0x80, 0xff))) // a raw byte, not valid UTF-8 by itself
			default:
				u = append(u, byte(g.Range(0x21, 0x7e)))
			}
		}
		if u[0] == ':' {
			u[0] = 'x'
		}
		// a raw byte followed by continuation bytes may accidentally form a white
		// space rune (C2 85, C2 A0, E2 80 8x ...): check the decoded form
		for _, r := range string(u) {
			if unicode.IsSpace(r) {
				return "caf\xc3\xa0\xd1\x85" // a fixed in-claim parameter instead
			}
		}
		return string(u)
	}
	b := make([]byte, n)
	for i := range b {
		c := paramAlpha[g.Intn(len(paramAlpha))]
		if i == 0 && c == ':' {
			c = 'x'
		}
		b[i] = c
	}
	return string(b)
}

var verbPool = []string{"PRIVMSG", "NOTICE", "JOIN", "PART", "QUIT", "MODE", "TOPIC", "KICK", "NICK", "PING", "PONG", "ERROR", "INVITE", "WALLOPS", "CAP",
	"AUTHENTICATE", "FOO", "X", "001", "002", "005", "311", "324", "332", "352", "353", "366", "372", "433", "671", "903", "999", "000"}

func mixCase(g G, s string) string {
	switch g.Intn(4) {
	case 0:
		return s
	case 1:
		return strings.ToLower(s)
	}
	b := []byte(s)
	for i := range b {
		if g.Bool() {
			b[i] = strings.ToLower(string(b[i]))[0]
		}
	}
	return string(b)
}

// genMessage returns the wire text of one well-formed message and the Line the
// property says it must parse to (computed from the components, never by
// re-parsing).
func genMessage(g G, me string) (string, *client.Line) {
	var w strings.Builder
	exp := &client.Line{}
	// tags
	if g.Pct(40) {
		nt := g.Range(0, 6)
		if nt == 0 {
			nt = 1
		}
		exp.Tags = map[string]string{}
		w.WriteByte('@')
		for i := 0; i < nt; i++ {
			key := g.Str(tagKeyAlpha, 1, 10)
			if g.Pct(20) {
				key = g.Str(lower, 2, 8) + "." + g.Str(lower, 2, 5) + "/" + key
			}
			if g.Pct(10) {
				key = "+" + key
			}
			if _, dup := exp.Tags[key]; dup {
				key += fmt.Sprintf("%d", i)
			}
			if i > 0 {
				w.WriteByte(';')
			}
			switch g.W(6, 2, 2) {
			case 0:
				v := genTagValue(g)
				exp.Tags[key] = v
				w.WriteString(key + "=" + tagEsc.Replace(v))
			case 1: // key only
				exp.Tags[key] = ""
				w.WriteString(key)
			default: // empty value
				exp.Tags[key] = ""
				w.WriteString(key + "=")
			}
		}
		w.WriteByte(' ')
	}
	// source
	nick := ""
	switch g.W(2, 4, 3, 1) {
	case 0:
	case 1:
		nick = g.Str(nickSet, 1, 12)
		ident := g.Str(alnum+"~-_.", 1, 10)
		host := g.Str(hostAlpha+":/", 1, 40)
		exp.Nick, exp.Ident, exp.Host = nick, ident, host
		exp.Src = nick + "!" + ident + "@" + host
		w.WriteString(":" + exp.Src + " ")
	case 2:
		exp.Src = g.Str(lower, 1, 8) + "." + g.Str(hostAlpha, 1, 20) + "." + g.Str(lower, 2, 3)
		exp.Host = exp.Src
		w.WriteString(":" + exp.Src + " ")
	default: // a bare name: kept whole as the host
		exp.Src = g.Str(nickSet, 1, 12)
		exp.Host = exp.Src
		w.WriteString(":" + exp.Src + " ")
	}
	// verb
	verb := verbPool[g.Intn(len(verbPool))]
	if g.Pct(10) {
		verb = fmt.Sprintf("%03d", g.Intn(1000))
	} else if g.Pct(10) {
		verb = g.Str("ABCDEFGHIJKLMNOPQRSTUVWXYZ", 1, 12)
	}
	w.WriteString(mixCase(g, verb))
	exp.Cmd = strings.ToUpper(verb)
	// CTCP form?
	if (exp.Cmd == "PRIVMSG" || exp.Cmd == "NOTICE") && g.Pct(35) {
		target := []string{me, "#chan", "&local", "+modeless", "!safe", g.Str(nickSet, 1, 9)}[g.Intn(6)]
		cv := []string{"ACTION", "VERSION", "PING", "TIME", "DCC", "FOO"}[g.Intn(6)]
		text := strings.TrimSpace(g.Str(textAlpha, 1, 60))
		if text == "" {
			text = "x"
		}
		w.WriteString(strings.Repeat(" ", g.Range(1, 3)) + target + strings.Repeat(" ", g.Range(1, 2)) + ":\x01" + cv + " " + text + "\x01")
		switch {
		case cv == "ACTION" && exp.Cmd == "PRIVMSG":
			exp.Cmd = "ACTION"
			exp.Args = []string{target, text}
		case exp.Cmd == "PRIVMSG":
			exp.Cmd = "CTCP"
			exp.Args = []string{cv, target, text}
		default:
			exp.Cmd = "CTCPREPLY"
			exp.Args = []string{cv, target, text}
		}
		exp.Raw = w.String()
		return exp.Raw, exp
	}
	// middles
	nm := g.W(2, 4, 4, 3, 2, 1, 1)
	if nm == 6 {
		nm = g.Range(6, 14)
	}
	for i := 0; i < nm; i++ {
		p := genParam(g, i == 0)
		if i == 0 && (exp.Cmd == "PRIVMSG" || exp.Cmd == "NOTICE") && g.Pct(70) {
			p = []string{me, "#chan", "&local", "+modeless", "!safe"}[g.Intn(5)]
		}
		w.WriteString(strings.Repeat(" ", 1+g.W(6, 1, 1)) + p)
		exp.Args = append(exp.Args, p)
	}
	// trailing
	if g.Pct(60) {
		var t string
		switch g.W(2, 5, 2, 1) {
		case 0:
			t = ""
		case 1:
			t = g.Str(textAlpha, 1, 60)
		case 2:
			t = g.Str(textAlpha, 0, 20) + " :" + g.Str(textAlpha, 0, 20)
		default:
			t = g.Str(textAlpha, 3000, 9000)
		}
		if (exp.Cmd == "PRIVMSG" || exp.Cmd == "NOTICE") && len(t) > 2 && t[0] == 1 && t[len(t)-1] == 1 {
			t = "x" + t
		}
		w.WriteString(strings.Repeat(" ", 1+g.W(6, 1, 1)) + ":" + t)
		exp.Args = append(exp.Args, t)
	}
	exp.Raw = w.String()
	return exp.Raw, exp
}

// expected Text / Target / Public from the components
func expText(l *client.Line) string {
	if len(l.Args) == 0 {
		return ""
	}
	return l.Args[len(l.Args)-1]
}

func isChan(s string) bool { return s != "" && strings.ContainsRune("#&+!", rune(s[0])) }

func expPublic(l *client.Line) bool {
	switch l.Cmd {
	case "PRIVMSG", "NOTICE", "ACTION":
		return len(l.Args) > 0 && isChan(l.Args[0])
	case "CTCP", "CTCPREPLY":
		return len(l.Args) > 1 && isChan(l.Args[1])
	}
	return false
}

func expTarget(l *client.Line) string {
	switch l.Cmd {
	case "PRIVMSG", "NOTICE", "ACTION":
		if !expPublic(l) {
			return l.Nick
		}
	case "CTCP", "CTCPREPLY":
		if !expPublic(l) {
			return l.Nick
		}
		return l.Args[1]
	}
	if len(l.Args) > 0 {
		return l.Args[0]
	}
	return ""
}

func lineDiff(got, want *client.Line) string {
	if got == nil {
		return "parser returned nil (rejected the message)"
	}
	var d []string
	if !reflect.DeepEqual(got.Tags, want.Tags) {
		d = append(d, fmt.Sprintf("Tags=%q want %q", got.Tags, want.Tags))
	}
	if got.Nick != want.Nick || got.Ident != want.Ident || got.Host != want.Host || got.Src != want.Src {
		d = append(d, fmt.Sprintf("Nick/Ident/Host/Src=%q/%q/%q/%q want %q/%q/%q/%q", got.Nick, got.Ident, got.Host, got.Src, want.Nick, want.Ident, want.Host, want.Src))
	}
	if got.Cmd != want.Cmd {
		d = append(d, fmt.Sprintf("Cmd=%q want %q", got.Cmd, want.Cmd))
	}
	if len(got.Args) != len(want.Args) || (len(got.Args) > 0 && !reflect.DeepEqual(got.Args, want.Args)) {
		d = append(d, fmt.Sprintf("Args=%s want %s", clipq(got.Args), clipq(want.Args)))
	}
	if got.Raw != want.Raw {
		d = append(d, fmt.Sprintf("Raw=%q want %q", clip(got.Raw), clip(want.Raw)))
	}
	return strings.Join(d, "; ")
}

// safely runs f and reports a panic as a string
func safely(f func()) (p string) {
	defer func() {
		if r := recover(); r != nil {
			p = fmt.Sprint(r)
		}
	}()
	f()
	return ""
}

func recvGrammar(e *Env) {
	g := G{e.S}
	n := g.Range(1, 40)
	type msg struct {
		wire string
		exp  *client.Line
	}
	var msgs []msg
	for i := 0; i < n; i++ {
		wtxt, exp := genMessage(g, "me")
		msgs = append(msgs, msg{wtxt, exp})
	}
	e.Notef("%d messages, e.g. %q", n, clip(msgs[0].wire))
	// (a) the parser itself
	for i, m := range msgs {
		var got *client.Line
		if p := safely(func() { got = client.ParseLine(m.wire) }); p != "" {
			e.Violation("parse-panic", "ParseLine panics on the well-formed message %q: %s", clip(m.wire), p)
			return
		}
		e.Check()
		if d := lineDiff(got, m.exp); d != "" {
			e.Violation("parse", "message %d %q parsed wrongly: %s", i, clip(m.wire), d)
			return
		}
		var txt, tgt string
		var pub bool
		if p := safely(func() { txt, tgt, pub = got.Text(), got.Target(), got.Public() }); p != "" {
			e.Violation("accessor-panic", "Text/Target/Public panic on the parse of %q: %s", clip(m.wire), p)
			return
		}
		if txt != expText(m.exp) || tgt != expTarget(m.exp) || pub != expPublic(m.exp) {
			e.Violation("accessors", "message %q: Text/Target/Public = %q/%q/%v, the components give %q/%q/%v", clip(m.wire), clip(txt), tgt, pub, clip(expText(m.exp)), expTarget(m.exp), expPublic(m.exp))
			return
		}
	}
	// (b) over a connection, through recv -> queue -> runLoop -> dispatch
	s := startSession(e, g.Knobs(ClientOpts{Nick: "me", Flood: true, Track: g.Pct(30)}), func(l *simnet.Link) { l.ChunkMode = 1 + g.Intn(3); l.Window = []int{0, 0, 0, 16, 64, 300}[g.Intn(6)] })
	var seen []*client.Line
	verbs := map[string]bool{}
	for _, m := range msgs {
		verbs[m.exp.Cmd] = true
	}
	var seenBG, seen2 []*client.Line
	fellows := g.Pct(35)
	for _, v := range sortedKeys(verbs) {
		// what a handler is given is its own: some take it apart once they have
		// looked at it (lower-case the target, strip a prefix, drop a tag); the
		// other handlers of the event must still receive the message as sent
		edits := g.Pct(40)
		if fellows {
			// a verb may have several handlers: each of them is "a handler
			// registered for the verb"
			s.c.HandleFunc(mixCase(g, v), func(c *client.Conn, l *client.Line) {
				seen2 = append(seen2, snapshotLine(l))
			})
		}
		s.c.HandleFunc(mixCase(g, v), func(c *client.Conn, l *client.Line) {
			seen = append(seen, snapshotLine(l))
			if edits {
				for i := range l.Args {
					l.Args[i] = strings.ToLower(l.Args[i]) + "~"
				}
				l.Args = append(l.Args, "edited")
				for _, k := range sortedKeys(l.Tags) {
					delete(l.Tags, k)
				}
				l.Nick, l.Cmd, l.Src = strings.ToLower(l.Nick), "EDITED", ""
			}
		})
		// background handlers get the same lines, in no particular order
		s.c.HandleBG(mixCase(g, v), client.HandlerFunc(func(c *client.Conn, l *client.Line) {
			for i := e.S.Choose(3); i > 0; i-- {
				simrt.Sleep(0)
			}
			seenBG = append(seenBG, snapshotLine(l))
		}))
	}
	if !s.connect() {
		return
	}
	seen, seenBG, seen2 = nil, nil, nil // events of the registration phase (001 ...) are not part of the session
	for _, m := range msgs {
		term := "\r\n"
		if g.S.Choose(8) == 0 {
			term = "\n"
		}
		s.l.Send(m.wire + term)
		if e.S.Choose(3) == 0 {
			simrt.Sleep(0)
		}
	}
	if !simrt.BlockFor("recv", "all messages delivered", time.Hour, func() bool { return len(seen) >= len(msgs) }) {
		e.Violation("not-delivered", "%d of %d well-formed messages reached the handler registered for their verb\n%s", len(seen), len(msgs), e.S.TaskDump())
		return
	}
	simrt.Settle(time.Second)
	if len(seen) != len(msgs) {
		e.Violation("delivered-twice", "%d handler invocations for %d messages", len(seen), len(msgs))
		return
	}
	for i, m := range msgs {
		e.Check()
		if d := lineDiff(seen[i], m.exp); d != "" {
			e.Violation("delivered", "message %d %q reached its handler as a different line: %s", i, clip(m.wire), d)
			return
		}
	}
	if fellows {
		if len(seen2) != len(msgs) {
			e.Violation("delivered", "two foreground handlers are registered for each verb: one received %d lines, the other %d, for %d messages", len(seen), len(seen2), len(msgs))
			return
		}
		for i, m := range msgs {
			if d := lineDiff(seen2[i], m.exp); d != "" {
				e.Violation("delivered", "message %d %q reached the first of the two handlers of its verb as a different line: %s", i, clip(m.wire), d)
				return
			}
		}
	}
	// the link is cut in the middle of one more message: what has arrived of it
	// is not a message and must reach no handler
	if g.Pct(35) {
		m := msgs[g.Intn(len(msgs))]
		cut := g.Range(1, len(m.wire))
		e.S.Count("fault.link-cut-mid-message")
		disc := false
		s.c.HandleFunc(client.DISCONNECTED, func(*client.Conn, *client.Line) { disc = true })
		simrt.Sleep(time.Duration(g.Intn(3)) * time.Millisecond)
		s.l.Send(m.wire[:cut])
		if g.Bool() {
			simrt.Sleep(time.Duration(1+g.Intn(3)) * time.Millisecond)
		}
		s.l.CloseByServer()
		if !simrt.BlockFor("recv", "DISCONNECTED after the server hung up", 10*time.Minute, func() bool { return disc }) {
			e.Violation("stopped-processing", "the server hung up mid-message and the client did not disconnect\n%s", e.S.TaskDump())
			return
		}
		simrt.Settle(time.Second)
		e.Check()
		if len(seen) != len(msgs) || len(seenBG) != len(msgs) {
			extra := seen[len(msgs):]
			what := "?"
			if len(extra) > 0 {
				what = fmt.Sprintf("Cmd=%q Args=%s Raw=%q", extra[0].Cmd, clipq(extra[0].Args), clip(extra[0].Raw))
			}
			e.Violation("delivered", "the link was cut after the first %d bytes of a message (%q): %d foreground and %d background deliveries for %d messages sent; a handler received %s, which the server never sent as a message", cut, clip(m.wire[:cut]), len(seen), len(seenBG), len(msgs), what)
			return
		}
	}
	// the background handlers: the same multiset of lines
	key := func(l *client.Line) string {
		return fmt.Sprintf("%q|%q|%q|%q|%q|%q|%q|%v", l.Raw, l.Cmd, l.Args, l.Nick, l.Ident, l.Host, l.Src, sortedTagList(l.Tags))
	}
	want := map[string]int{}
	for _, m := range msgs {
		want[key(m.exp)]++
	}
	if len(seenBG) != len(msgs) {
		e.Violation("delivered", "%d background handler invocations for %d messages", len(seenBG), len(msgs))
		return
	}
	for _, l := range seenBG {
		k := key(l)
		if want[k] == 0 {
			e.Violation("delivered", "a background handler was given a line that is none of the messages sent (or one of them once too often): Raw=%q Cmd=%q Args=%s Tags=%q", clip(l.Raw), l.Cmd, clipq(l.Args), l.Tags)
			return
		}
		want[k]--
	}
	s.c.Close()
}

func sortedTagList(t map[string]string) []string {
	if t == nil {
		return nil
	}
	out := []string{"<tags>"}
	for _, k := range sortedKeys(t) {
		out = append(out, k+"="+t[k])
	}
	return out
}

// ---------------------------------------------------------------------------
// C02: adversarial input

const advAlpha = "@: !;=\\\x01a1"

// shortString returns the idx-th string of the bounded-exhaustive family: all
// strings of length 0..4 over advAlpha.
func shortString(idx int) string {
	n := len(advAlpha)
	for l := 0; ; l++ {
		cnt := 1
		for i := 0; i < l; i++ {
			cnt *= n
		}
		if idx < cnt {
			b := make([]byte, l)
			for i := l - 1; i >= 0; i-- {
				b[i] = advAlpha[idx%n]
				idx /= n
			}
			return string(b)
		}
		idx -= cnt
	}
}

const shortCount = 1 + 10 + 100 + 1000 + 10000

var builtinVerbs = []string{"PING", "001", "433", "CAP", "410", "AUTHENTICATE", "903", "904", "908", "NICK", "JOIN", "PART", "KICK", "QUIT", "MODE", "TOPIC",
	"311", "324", "332", "352", "353", "671", "PRIVMSG", "NOTICE", "REGISTER", "CONNECTED", "DISCONNECTED", "CTCP", "CTCPREPLY", "ACTION"}

var oddParams = []string{"", "x", "#c", "me", ":", ": ", ":x", " ", "\x01", "\x01VERSION\x01", "\x01PING\x01", "\x01ACTION\x01", "\x01\x01", "\x01 \x01", "LS", "ACK", "NAK", "*", "+", "-", "+o", "+k", "-l", "+b mask", "@", "!", "a!b@c", "a@b!c", "="}

// oddTokens are the words of space-separated lists (capabilities, NAMES
// entries, mode arguments): every prefix/modifier character alone, doubled and
// in front of a name.
var oddTokens = []string{"-", "~", "=", "+", "@", "%", "&", "!", "-~", "=-", "--", "@+", "+@", "a", "-a", "~a", "=a", "a=", "a=b", "a=b,c", "@a", "+a", "@+a",
	"sasl", "-sasl", "sasl=PLAIN", "multi-prefix", "me", "@me", "bob", "*", ":", "#c", "a!b@c"}

func oddList(g G, max int) string {
	var ws []string
	for k := g.Range(0, max); k > 0; k-- {
		ws = append(ws, oddTokens[g.Intn(len(oddTokens))])
	}
	return strings.Join(ws, strings.Repeat(" ", g.W(0, 8, 1, 1)))
}

// genNearValid is a line a built-in handler accepts as far as its shape goes
// (right verb, right sub-command, right number of parameters), with odd words
// where the handler goes on to take things apart.
func genNearValid(g G, me string) string {
	who := []string{me, "*", "bob", ""}[g.W(5, 3, 1, 1)]
	ch := []string{"#c", "#d", "&x", "#", me}[g.W(6, 2, 1, 1, 1)]
	nk := []string{"bob", me, "al", "@bob", ""}[g.W(5, 2, 2, 1, 1)]
	modes := func() string {
		var b strings.Builder
		for k := g.Range(1, 6); k > 0; k-- {
			b.WriteByte("+-+-ovhqaklbeIimnpstrz?"[g.Intn(23)])
		}
		return b.String()
	}
	switch g.Intn(17) {
	case 0, 1, 2:
		sub := []string{"LS", "ACK", "NAK", "LIST", "NEW", "DEL", "ls", ""}[g.W(4, 4, 2, 1, 1, 1, 1, 1)]
		cont := []string{"", "* "}[g.W(4, 1)]
		return ":irc.sim CAP " + who + " " + sub + " " + cont + ":" + oddList(g, 5)
	case 3:
		return "AUTHENTICATE " + []string{"+", "", ":", "x", "+ +", strings.Repeat("A", 400)}[g.Intn(6)]
	case 4:
		return ":irc.sim " + []string{"903", "904", "908", "410"}[g.Intn(4)] + " " + who + " " + oddList(g, 3)
	case 5:
		return ":irc.sim 001 " + nk + " :" + oddList(g, 4)
	case 6:
		return ":irc.sim 433 " + who + " " + nk + " :" + oddList(g, 2)
	case 7:
		return ":irc.sim 353 " + who + " " + []string{"=", "*", "@", ""}[g.Intn(4)] + " " + ch + " :" + oddList(g, 6)
	case 8:
		return ":irc.sim 352 " + who + " " + ch + " " + oddList(g, 2) + " irc.sim " + nk + " " + []string{"H", "G", "H*", "H@", "*", ""}[g.Intn(6)] + " :" + oddList(g, 3)
	case 9:
		return ":irc.sim 324 " + who + " " + ch + " " + modes() + " " + oddList(g, 3)
	case 10:
		return ":" + nk + "!u@h MODE " + []string{ch, me, nk}[g.W(4, 1, 1)] + " " + modes() + " " + oddList(g, 4)
	case 11:
		return ":irc.sim " + []string{"332", "311", "671"}[g.Intn(3)] + " " + who + " " + []string{ch, nk}[g.Intn(2)] + " " + oddList(g, 3) + " :" + oddList(g, 2)
	case 12:
		return ":" + nk + "!u@h " + []string{"JOIN", "PART", "QUIT", "NICK", "TOPIC"}[g.Intn(5)] + " " + []string{ch, ":" + ch, nk, ":" + nk, ""}[g.Intn(5)] + " " + oddList(g, 2)
	case 13:
		return ":" + nk + "!u@h KICK " + ch + " " + []string{me, "bob", nk, ""}[g.Intn(4)] + " :" + oddList(g, 2)
	case 14:
		return ":" + nk + "!u@h " + []string{"PRIVMSG", "NOTICE"}[g.Intn(2)] + " " + []string{me, ch}[g.Intn(2)] + " :\x01" + []string{"VERSION", "PING", "USERINFO", "ACTION", "", " "}[g.Intn(6)] + []string{"", " ", " x", "\x01", " x\x01"}[g.Intn(5)]
	case 15:
		// a CTCP request whose argument the client echoes: long, without spaces,
		// of one repeated byte or byte pair (continuation bytes, dots, NUL ...)
		unit := []string{"\xbf", "\x80", ".", "x", "\x00", "\xe4\xb8", "\xf0\x9f\x98\x8a", ". ", "\xc4\x8d"}[g.Intn(9)]
		n := []int{12, 13, 14, 15, 40, 101, 447, 451, 470}[g.Intn(9)]
		arg := []string{"", "x"}[g.Intn(2)] + strings.Repeat(unit, n/len(unit)+1)
		return ":" + nk + "!u@h PRIVMSG " + me + " :\x01" + []string{"PING", "VERSION", "ECHO"}[g.W(4, 1, 1)] + " " + arg + "\x01"
	default:
		return "PING " + []string{"", ":", ": ", ":a b", "a b", ":" + strings.Repeat("t", 600)}[g.Intn(6)]
	}
}

func genProbe(g G, me string) string {
	switch g.W(4, 4, 3, 2, 2, 5, 1) {
	case 6:
		// very long lines: around the read buffer's 4096 bytes, around IRCv3's
		// 8191-byte tag section, and far beyond, well-formed or not
		n := []int{4000, 4093, 4094, 4095, 4096, 4097, 4100, 8190, 8704, 9000, 20000}[g.Intn(11)]
		switch g.Intn(3) {
		case 0:
			return ":u!i@h PRIVMSG " + me + " :" + strings.Repeat("L", n-20)
		case 1:
			return "@t=" + strings.Repeat("v", n-40) + " :u!i@h NOTICE " + me + " :x"
		default:
			return strings.Repeat([]string{"x", " ", ":", "@"}[g.Intn(4)], n)
		}
	case 5:
		return genNearValid(g, me)
	case 0:
		return shortString(g.Intn(shortCount))
	case 1: // a built-in handler's verb with too few / empty / odd parameters
		var w strings.Builder
		switch g.Intn(4) {
		case 0:
			w.WriteString(":irc.sim ")
		case 1:
			w.WriteString(":" + []string{me, "bob", ""}[g.Intn(3)] + "!u@h ")
		case 2:
			w.WriteString(":" + oddParams[g.Intn(len(oddParams))] + " ")
		}
		w.WriteString(mixCase(g, builtinVerbs[g.Intn(len(builtinVerbs))]))
		for k := g.Intn(8); k > 0; k-- {
			w.WriteString(strings.Repeat(" ", g.Range(0, 2)) + oddParams[g.Intn(len(oddParams))])
		}
		if g.Pct(30) {
			w.WriteString(" :" + oddParams[g.Intn(len(oddParams))])
		}
		return w.String()
	case 2: // mutation of a well-formed message
		wtxt, _ := genMessage(g, me)
		if len(wtxt) > 300 {
			wtxt = wtxt[:300]
		}
		b := []byte(wtxt)
		for k := g.Range(1, 3); k > 0 && len(b) > 0; k-- {
			i := g.Intn(len(b))
			switch g.Intn(5) {
			case 0: // truncate
				b = b[:i]
			case 1: // delete a byte
				b = append(b[:i], b[i+1:]...)
			case 2: // duplicate a stretch
				j := i + g.Intn(len(b)-i)
				b = append(b[:j], append(append([]byte{}, b[i:j]...), b[j:]...)...)
			case 3: // special byte
				b[i] = advAlpha[g.Intn(len(advAlpha))]
			default: // swap halves
				b = append(append([]byte{}, b[i:]...), b[:i]...)
			}
		}
		return string(b)
	case 3: // short string followed by more
		return shortString(g.Intn(shortCount)) + oddParams[g.Intn(len(oddParams))] + shortString(g.Intn(shortCount))
	default: // random bytes (LF would just start another line)
		n := g.Range(1, 40)
		b := make([]byte, n)
		for i := range b {
			c := byte(g.Intn(256))
			if c == '\n' {
				c = '\r'
			}
			b[i] = c
		}
		return string(b)
	}
}

func recvAdversary(e *Env) {
	g := G{e.S}
	track := g.Bool()
	n := g.Range(1, 60)
	var probes []string
	// thorough tier: the run index sweeps the bounded-exhaustive family too
	for i := 0; i < n; i++ {
		p := genProbe(g, "me")
		probes = append(probes, p)
		// the same hostile line again, at once or later: the first one may have
		// left something behind (a lock, a half-updated table)
		if len(probes) > 1 && g.Pct(25) {
			probes = append(probes, probes[g.Intn(len(probes))])
		}
	}
	if track && g.Pct(60) {
		// a tracker with something in it: the client on two channels, other users
		// on one of them each.  The hostile lines name these nicks and channels
		// (bob, al, #c, #d), so they reach the paths that complain about a known
		// nick on the wrong channel, not only the ones for unknown names
		pre := []string{":me!u@h JOIN :#c", ":me!u@h JOIN #d", ":bob!u@h JOIN #c", ":al!u@h JOIN :#d",
			":irc.sim 353 me = #c :me @bob", ":irc.sim 352 me #d u h irc.sim al H :0 Al"}
		pre = pre[:g.Range(3, len(pre))]
		if g.Pct(30) {
			// a crowded namespace: every nick the collision generator can derive
			// from the client's own is taken by somebody on #c, and the server
			// then refuses the client's nick (a line like any other)
			var sib []string
			for n := client.DefaultNewNick("me"); n != "me" && len(sib) < 80; n = client.DefaultNewNick(n) {
				sib = append(sib, n)
			}
			pre = append(pre, ":irc.sim 353 me = #c :"+strings.Join(sib, " "))
			at := g.Intn(len(probes) + 1)
			probes = append(probes[:at], append([]string{":irc.sim 433 me me :Nickname is already in use."}, probes[at:]...)...)
			e.S.Count("probe.nick-refused-with-every-derived-nick-taken")
		}
		probes = append(pre, probes...)
		e.S.Count("probe.hostile-lines-against-a-populated-tracker")
	}
	n = len(probes)
	if e.Tier == "thorough" {
		// the bounded-exhaustive family is swept by run index: 40 consecutive
		// members per run, so 278 runs cover all 11 111 strings
		for k := 0; k < 40; k++ {
			probes = append(probes, shortString((e.Idx*40+k)%shortCount))
		}
		n = len(probes)
		e.S.CountN("probe.short-family-members-swept", 40)
	}
	e.Notef("track=%v %d probes, e.g. %q %q", track, n, clip(probes[0]), clip(probes[len(probes)-1]))
	// accessors on whatever the parser returns, directly
	cmds := map[string]bool{}
	for _, p := range probes {
		var got *client.Line
		trimmed := strings.Trim(p, "\r\n")
		if pn := safely(func() { got = client.ParseLine(trimmed) }); pn != "" {
			e.Violation("parse-panic", "ParseLine(%q) panics: %s", trimmed, pn)
			return
		}
		e.Check()
		if got == nil {
			continue
		}
		cmds[got.Cmd] = true
		if pn := safely(func() { got.Text(); got.Target(); got.Public() }); pn != "" {
			e.Violation("accessor-panic", "Text/Target/Public panic on the line parsed from %q (Cmd=%q Args=%q): %s", trimmed, got.Cmd, got.Args, pn)
			return
		}
	}
	// configuration the built-in handlers consult: the split length used for
	// CTCP replies (which echo server-chosen text), a SASL client, wanted
	// capabilities
	opts := ClientOpts{Nick: "me", Flood: true, Track: track, SplitLen: []int{0, 0, 13, 14, 40, 100}[g.Intn(6)]}
	if g.Pct(40) {
		opts.Sasl = sasl.NewPlainClient("", "user", "pw")
		opts.Caps = []string{"multi-prefix", "sasl"}
	}
	e.Notef("SplitLen=%d sasl=%v", opts.SplitLen, opts.Sasl != nil)
	s := startSession(e, g.Knobs(opts), func(l *simnet.Link) { l.ChunkMode = g.Intn(4); l.Window = []int{0, 0, 0, 16, 64, 300}[g.Intn(6)] })
	var markers []int
	s.c.HandleFunc("PRIVMSG", func(c *client.Conn, l *client.Line) {
		var k int
		if _, err := fmt.Sscanf(l.Text(), "marker %d", &k); err == nil && l.Nick == "mark" {
			markers = append(markers, k)
		}
	})
	for _, cmd := range sortedKeys(cmds) {
		cmd := cmd
		s.c.HandleFunc(cmd, func(c *client.Conn, l *client.Line) {
			if pn := safely(func() { l.Text(); l.Target(); l.Public() }); pn != "" {
				e.Violation("accessor-panic", "Text/Target/Public panic inside a %s handler on line %q: %s", cmd, l.Raw, pn)
			}
		})
	}
	// the first lines may be the server's greeting, sent on accept: nothing the
	// client receives is exempt from "dispatched or rejected, in order"
	greeted := 0
	if g.Pct(30) {
		greeted = g.Range(1, 3)
		if greeted > len(probes) {
			greeted = len(probes)
		}
		for i := 0; i < greeted; i++ {
			s.greet = append(s.greet, probes[i], fmt.Sprintf(":mark!m@h PRIVMSG me :marker %d", i))
		}
		e.S.Count("probe.hostile-lines-in-the-server-greeting")
	}
	if !s.connect() {
		return
	}
	for i, p := range probes {
		if i < greeted {
			continue
		}
		// terminators as servers and bouncers produce them: CRLF, a bare LF,
		// and now and then an empty line of either kind in between
		s.l.Send(p + []string{"\r\n", "\r\n", "\r\n", "\n", "\n\n", "\r\n\n", "\n\r\n", "\r\r\n"}[e.S.Choose(8)])
		s.l.Send(fmt.Sprintf(":mark!m@h PRIVMSG me :marker %d\r\n", i))
		if e.S.Choose(4) == 0 {
			simrt.Sleep(0)
		}
	}
	s.l.SendLine("PING :the-end")
	ponged := false
	s.onLine = func(ln string) {
		if ln == "PONG :the-end" {
			ponged = true
		}
	}
	ok := simrt.BlockFor("recv", "markers and final PONG", time.Hour, func() bool { return len(markers) >= len(probes) && ponged })
	simrt.Settle(time.Second)
	e.Check()
	if !ok {
		e.Violation("stopped-processing", "after %d hostile lines only %d of %d marker lines were delivered and the final PING was answered=%v\n%s", len(probes), len(markers), len(probes), ponged, e.S.TaskDump())
		return
	}
	for i, k := range markers {
		if k != i {
			e.Violation("markers-out-of-order", "marker %d delivered at position %d (%v)", k, i, markers)
			return
		}
	}
	if len(markers) != len(probes) {
		e.Violation("markers-duplicated", "%d marker deliveries for %d markers", len(markers), len(probes))
	}
	s.c.Close()
}
