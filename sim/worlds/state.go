package worlds

import (
	"fmt"
	"reflect"
	"strings"
	"time"

	"github.com/anishathalye/porcupine"
	"github.com/fluffle/goirc/state"

	"verifsim/simrt"
)

// W-state: tracker tasks on the instrumented state package.  Decides C12 and C14.
func init() {
	register(&World{Name: "state", Run: stateRun, MaxSteps: 3000000, MaxSimTime: 10 * time.Hour})
}

func stateRun(e *Env) {
	if e.Prop == "C14" {
		if (G{e.S}).Pct(50) {
			stateConcurrent(e)
		} else {
			stateSnapshots(e)
		}
		return
	}
	stateSequential(e)
}

type universe struct {
	nicks, chans []string
}

func genUniverse(g G, big bool) universe {
	if big {
		u := universe{}
		for i := 0; i < 20; i++ {
			u.nicks = append(u.nicks, fmt.Sprintf("n%02d", i))
		}
		for i := 0; i < 10; i++ {
			u.chans = append(u.chans, fmt.Sprintf("#c%d", i))
		}
		u.nicks = append(u.nicks, "me", "")
		u.chans = append(u.chans, "")
		return u
	}
	return universe{nicks: []string{"me", "a", "b", "c", ""}, chans: []string{"#x", "#y", "#z", ""}}
}

// genOp draws one tracker operation.  m is consulted only to bias towards
// interesting arguments (existing names) and to keep out of the corners the
// property leaves unspecified.
func genOp(g G, u universe, m *mTracker, uniq *int, choose func(int) int) tOp {
	nick := func() string { return u.nicks[choose(len(u.nicks))] }
	ch := func() string { return u.chans[choose(len(u.chans))] }
	fresh := func(p string) string { *uniq++; return fmt.Sprintf("%s%d", p, *uniq) }
	switch choose(20) {
	case 0, 1:
		return tOp{"NewNick", []string{nick()}}
	case 2:
		return tOp{"GetNick", []string{nick()}}
	case 3, 4:
		return tOp{"ReNick", []string{nick(), nick()}}
	case 5:
		return tOp{"DelNick", []string{nick()}}
	case 6:
		// each attribute may also be given empty (a JOIN carries no real name):
		// the tracker stores what it is given
		val := func(p string) string {
			if choose(4) == 0 {
				return ""
			}
			return fresh(p)
		}
		return tOp{"NickInfo", []string{nick(), val("id"), val("host"), val("name")}}
	case 7:
		// any string over the signs, the six user-mode letters and a letter the
		// tracker does not know (signs may switch anywhere, also right at the start)
		var b strings.Builder
		for k := choose(7); k > 0; k-- {
			b.WriteByte("++--BiowxzBiowxzq"[choose(17)])
		}
		return tOp{"NickModes", []string{nick(), b.String()}}
	case 8, 9:
		return tOp{"NewChannel", []string{ch()}}
	case 10:
		return tOp{"GetChannel", []string{ch()}}
	case 11:
		return tOp{"DelChannel", []string{ch()}}
	case 12:
		if choose(5) == 0 {
			return tOp{"Topic", []string{ch(), ""}}
		}
		return tOp{"Topic", []string{ch(), fresh("topic")}}
	case 13, 14:
		return genModeOp(u, m, ch(), uniq, choose)
	case 15:
		return tOp{"IsOn", []string{ch(), nick()}}
	case 16, 17:
		return tOp{"Associate", []string{ch(), nick()}}
	case 18:
		return tOp{"Dissociate", []string{ch(), nick()}}
	default:
		switch choose(4) {
		case 0:
			return tOp{"Wipe", nil}
		case 1:
			return tOp{"String", nil}
		}
		return tOp{"Me", nil}
	}
}

// genModeOp builds a channel mode change the property specifies: letters that
// take arguments get them; a privilege change for a nick that is not on the
// channel, and a key removal, are only generated in last position (which
// argument they consume is unspecified); limits are numeric.
func genModeOp(u universe, m *mTracker, c string, uniq *int, choose func(int) int) tOp {
	var modes strings.Builder
	var args []string
	on := true
	sign := func(want bool) {
		if modes.Len() == 0 || on != want {
			if want {
				modes.WriteByte('+')
			} else {
				modes.WriteByte('-')
			}
			on = want
		}
	}
	n := 1 + choose(5)
	for i := 0; i < n; i++ {
		last := i == n-1
		switch choose(7) {
		case 6:
			sign(choose(2) == 0)
			modes.WriteByte("beI"[choose(3)])
			*uniq++
			args = append(args, fmt.Sprintf("mask%d!*@*", *uniq))
		case 0, 1:
			sign(choose(3) != 0)
			modes.WriteByte("imnprstzZO"[choose(10)])
		case 2:
			if choose(2) == 0 {
				sign(true)
				modes.WriteByte('k')
				*uniq++
				args = append(args, fmt.Sprintf("key%d", *uniq))
			} else if last {
				sign(false)
				modes.WriteByte('k')
				// servers send something with -k: the key, a placeholder, or a key
				// that is no longer current.  Whatever it is, the key is removed
				switch choose(4) {
				case 1:
					args = append(args, "*")
				case 2:
					args = append(args, fmt.Sprintf("key%d", *uniq))
				case 3:
					args = append(args, "not-the-key")
				}
			}
		case 3:
			if choose(2) == 0 {
				sign(true)
				modes.WriteByte('l')
				*uniq++
				args = append(args, fmt.Sprint(1+*uniq%500))
			} else {
				sign(false)
				modes.WriteByte('l')
			}
		default:
			n := u.nicks[choose(len(u.nicks))]
			if choose(4) != 0 {
				// prefer a nick that is on the channel
				var on []string
				for _, x := range u.nicks {
					if _, ok := m.mem[[2]string{c, x}]; ok {
						on = append(on, x)
					}
				}
				if len(on) > 0 {
					n = on[choose(len(on))]
				}
			}
			_, member := m.mem[[2]string{c, n}]
			if !member && !last {
				continue
			}
			sign(choose(3) != 0)
			modes.WriteByte("qaohv"[choose(5)])
			args = append(args, n)
		}
	}
	if modes.Len() == 0 {
		modes.WriteString("+n")
	}
	if len(args) > 0 && choose(8) == 0 {
		// the line is short of arguments: the letters that find none left are
		// skipped, every other letter of the string still takes effect
		args = args[:choose(len(args))]
	}
	return tOp{"ChannelModes", append([]string{c, modes.String()}, args...)}
}

// prelude populates the tracker (most runs): channels, nicks, memberships.
func prelude(g G, u universe) []tOp {
	var ops []tOp
	if g.Pct(30) {
		return nil
	}
	var cs, ns []string
	for _, c := range u.chans {
		if c != "" && g.Pct(70) && len(cs) < 4 {
			cs = append(cs, c)
			ops = append(ops, tOp{"NewChannel", []string{c}})
		}
	}
	for _, n := range u.nicks {
		if n != "" && n != "me" && g.Pct(70) && len(ns) < 8 {
			ns = append(ns, n)
			ops = append(ops, tOp{"NewNick", []string{n}})
		}
	}
	ns = append(ns, "me")
	for _, c := range cs {
		for _, n := range ns {
			if g.Pct(70) {
				ops = append(ops, tOp{"Associate", []string{c, n}})
			}
		}
	}
	return ops
}

// ---------------------------------------------------------------------------
// C12: sequential histories against the model

func stateSequential(e *Env) {
	g := G{e.S}
	u := genUniverse(g, g.Pct(25))
	n := []int{1, 3, 6, 12, 25, 60, 120, 200}[g.Intn(8)]
	st := state.NewTracker("me")
	m := newModel("me")
	uniq := 0
	seen := map[string]bool{}
	var hist []string
	for _, op := range prelude(g, u) {
		got, _ := applyOp(st, op)
		want, _ := applyOp(m, op)
		hist = append(hist, op.String())
		if got != want {
			e.Violation("return-value", "%s returned %s, the relational model gives %s (history: %s)", op, got, want, strings.Join(lastN(hist, 12), "; "))
			return
		}
	}
	for i := 0; i < n; i++ {
		op := genOp(g, u, m, &uniq, g.S.Plan)
		got, _ := applyOp(st, op)
		want, _ := applyOp(m, op)
		if len(hist) < 400 {
			hist = append(hist, op.String())
		}
		e.Check()
		if got != want {
			e.Violation("return-value", "after %s\n%s returned %s, the relational model gives %s", strings.Join(lastN(hist, 12), "; "), op, got, want)
			return
		}
		sn, sc := u.nicks, u.chans
		if len(u.nicks) > 8 && i%25 != 24 && i != n-1 {
			// big universe: the names the operation mentions plus a sample each
			// step, everything every 25 steps and at the end
			sn, sc = nil, nil
			for _, a := range op.A {
				sn = append(sn, a)
				sc = append(sc, a)
			}
			for k := 0; k < 4; k++ {
				sn = append(sn, u.nicks[g.S.Plan(len(u.nicks))])
			}
			sc = append(sc, u.chans[g.S.Plan(len(u.chans))], u.chans[g.S.Plan(len(u.chans))])
		}
		if d := sweep(st, m, sn, sc); d != "" {
			e.Violation("state", "after %s\nthe tracker differs from the relational model: %s", strings.Join(lastN(hist, 12), "; "), d)
			return
		}
		seen[m.encode()] = true
	}
	e.S.CountN("probe.distinct-model-states", len(seen))
	e.Notef("%d operations over %d nicks x %d channels, %d distinct model states; first: %s", n, len(u.nicks), len(u.chans), len(seen), strings.Join(lastN(hist[:min(len(hist), 6)], 6), "; "))
}

func lastN(xs []string, n int) []string {
	if len(xs) > n {
		return xs[len(xs)-n:]
	}
	return xs
}

// ---------------------------------------------------------------------------
// C14 part 1: returned values are private snapshots

func scribbleNick(n *state.Nick) {
	if n == nil {
		return
	}
	n.Nick, n.Ident, n.Host, n.Name = "SCRIBBLE", "SCRIBBLE", "SCRIBBLE", "SCRIBBLE"
	if n.Modes != nil {
		*n.Modes = state.NickMode{Bot: true, Invisible: true, Oper: true, WallOps: true, HiddenHost: true, SSL: true}
	}
	for k, cp := range n.Channels {
		if cp != nil {
			*cp = state.ChanPrivs{Owner: true, Admin: true, Op: true, HalfOp: true, Voice: true}
		}
		delete(n.Channels, k)
	}
	if n.Channels != nil {
		n.Channels["#scribble"] = &state.ChanPrivs{Op: true}
	}
}

func scribbleChan(c *state.Channel) {
	if c == nil {
		return
	}
	c.Name, c.Topic = "SCRIBBLE", "SCRIBBLE"
	if c.Modes != nil {
		*c.Modes = state.ChanMode{Private: true, Secret: true, Key: "SCRIBBLE", Limit: 99999, InviteOnly: true}
	}
	for k, cp := range c.Nicks {
		if cp != nil {
			*cp = state.ChanPrivs{Owner: true, Admin: true, Op: true, HalfOp: true, Voice: true}
		}
		delete(c.Nicks, k)
	}
	if c.Nicks != nil {
		c.Nicks["scribble"] = &state.ChanPrivs{Op: true}
	}
}

func deepCopy(v interface{}) interface{} {
	switch x := v.(type) {
	case *state.Nick:
		if x == nil {
			return x
		}
		c := *x
		if x.Modes != nil {
			m := *x.Modes
			c.Modes = &m
		}
		if x.Channels != nil {
			c.Channels = map[string]*state.ChanPrivs{}
			for k, p := range x.Channels {
				if p != nil {
					q := *p
					c.Channels[k] = &q
				} else {
					c.Channels[k] = nil
				}
			}
		}
		return &c
	case *state.Channel:
		if x == nil {
			return x
		}
		c := *x
		if x.Modes != nil {
			m := *x.Modes
			c.Modes = &m
		}
		if x.Nicks != nil {
			c.Nicks = map[string]*state.ChanPrivs{}
			for k, p := range x.Nicks {
				if p != nil {
					q := *p
					c.Nicks[k] = &q
				} else {
					c.Nicks[k] = nil
				}
			}
		}
		return &c
	case *state.ChanPrivs:
		if x == nil {
			return x
		}
		c := *x
		return &c
	}
	return v
}

func stateSnapshots(e *Env) {
	g := G{e.S}
	u := genUniverse(g, false)
	n := []int{2, 6, 12, 25, 60, 120}[g.Intn(6)]
	st := state.NewTracker("me")
	m := newModel("me")
	uniq := 0
	type kept struct {
		val, copy interface{}
		op        string
		at        int
	}
	var keep []kept
	var hist []string
	for _, op := range prelude(g, u) {
		applyOp(st, op)
		applyOp(m, op)
	}
	recheck := func(i int) bool {
		for _, k := range keep {
			e.Check()
			if !reflect.DeepEqual(k.val, k.copy) {
				e.Violation("earlier-value-changed", "the value returned by %s (step %d) was altered by later tracker operations (now at step %d: %s)\n  returned: %s\n  now:      %s",
					k.op, k.at, i, strings.Join(lastN(hist, 8), "; "), describe(k.copy), describe(k.val))
				return false
			}
		}
		return true
	}
	for i := 0; i < n; i++ {
		op := genOp(g, u, m, &uniq, g.S.Plan)
		_, ret := applyOp(st, op)
		applyOp(m, op)
		hist = append(hist, op.String())
		if ret != nil && !reflect.ValueOf(ret).IsNil() {
			if g.S.Plan(2) == 0 {
				// mutate everything reachable from the returned value
				switch x := ret.(type) {
				case *state.Nick:
					scribbleNick(x)
				case *state.Channel:
					scribbleChan(x)
				case *state.ChanPrivs:
					*x = state.ChanPrivs{Owner: true, Admin: true, Op: true, HalfOp: true, Voice: true}
				}
				e.S.Count("fault.snapshot-scribbled")
				e.Check()
				if d := sweep(st, m, u.nicks, u.chans); d != "" {
					e.Violation("snapshot-aliases-tracker", "changing the value returned by %s altered the tracker: %s\n(history: %s)", op, d, strings.Join(lastN(hist, 10), "; "))
					return
				}
			} else if len(keep) < 60 {
				keep = append(keep, kept{ret, deepCopy(ret), op.String(), i})
			}
		}
		if !recheck(i) {
			return
		}
	}
	e.Notef("snapshots: %d operations, %d returned values kept and re-compared after every later operation", n, len(keep))
}

// useSnapshot reads a returned value through its own methods.
func useSnapshot(v interface{}) {
	switch x := v.(type) {
	case *state.Nick:
		if x != nil {
			_ = x.String()
			for c := range x.Channels {
				x.IsOn(c)
			}
		}
	case *state.Channel:
		if x != nil {
			_ = x.String()
			for n := range x.Nicks {
				x.IsOn(n)
			}
		}
	case *state.ChanPrivs:
		if x != nil {
			_ = x.String()
		}
	}
}

func describe(v interface{}) string {
	switch x := v.(type) {
	case *state.Nick:
		return encNick(x, true)
	case *state.Channel:
		return encChan(x, true)
	case *state.ChanPrivs:
		return encPrivs(x)
	}
	return fmt.Sprint(v)
}

// ---------------------------------------------------------------------------
// C14 part 2: concurrent callers, linearizability against the model

type linState struct {
	m   *mTracker
	enc string
}

func stateConcurrent(e *Env) {
	g := G{e.S}
	u := universe{nicks: []string{"me", "a", "b"}, chans: []string{"#x", "#y"}}
	nTasks := g.Range(2, 4)
	st := state.NewTracker("me")
	// a process may run several clients, each with a tracker of its own: callers
	// of different trackers share nothing as far as the interface says, so every
	// tracker's history stands for itself (and nothing they do may meet in
	// memory: the memory-model tier watches that)
	var st2 state.Tracker
	if g.Pct(25) {
		st2 = state.NewTracker("me")
		e.S.Count("probe.two-trackers-in-one-process")
	}
	// a little initial state so that operations interact
	pre := []tOp{{"NewChannel", []string{"#x"}}, {"Associate", []string{"#x", "me"}}, {"NewNick", []string{"a"}}, {"Associate", []string{"#x", "a"}}}
	npre := g.Intn(len(pre) + 1)
	lonely := false
	if g.Pct(30) {
		// another shape: a nick that is the only member of a channel (the client
		// is not on it) and on a second channel as well.  The public interface
		// can build it, and deleting that nick runs the tracker's "this emptied
		// a channel" branch in the middle of the cascade over its channels
		pre = []tOp{{"NewNick", []string{"a"}}, {"NewChannel", []string{"#x"}}, {"NewChannel", []string{"#y"}},
			{"Associate", []string{"#x", "a"}}, {"Associate", []string{"#y", "a"}}}
		if g.Pct(50) {
			pre = append(pre, tOp{"Associate", []string{[]string{"#x", "#y"}[g.Intn(2)], "me"}})
		}
		if g.Pct(30) {
			pre = append(pre, tOp{"NewNick", []string{"b"}}, tOp{"Associate", []string{"#x", "b"}})
		}
		npre = len(pre)
		lonely = true
	}
	m0 := newModel("me")
	for _, op := range pre[:npre] {
		applyOp(st, op)
		if st2 != nil {
			applyOp(st2, op)
		}
		applyOp(m0, op)
	}
	uniq := 0
	var ops, ops2 []porcupine.Operation
	type planned struct {
		ops []tOp
		use []bool // format the returned snapshot in the calling task
	}
	plans := make([]planned, nTasks)
	shadow := m0.clone()           // only for biasing generation
	second := make([]bool, nTasks) // tasks that call the second tracker
	for t := 1; t < nTasks && st2 != nil; t += 2 {
		second[t] = true
	}
	for t := 0; t < nTasks; t++ {
		k := g.Range(3, 12)
		if nTasks == 4 && k > 8 {
			k = 8
		}
		for i := 0; i < k; i++ {
			op := genOp(g, u, shadow, &uniq, g.S.Plan)
			if op.Kind == "ChannelModes" {
				// keep to letters whose meaning does not depend on what another
				// task does in between (unspecified argument consumption)
				op = tOp{"ChannelModes", []string{op.A[0], []string{"+n", "-n", "+s", "+t-s", "+i"}[g.Intn(5)]}}
				if g.Pct(40) {
					// one privilege letter and its nick (in last position, so that what
					// happens when the nick is not on the channel is specified): the
					// privilege struct is shared by the channel's and the nick's side
					op = tOp{"ChannelModes", []string{op.A[0], []string{"+o", "-o", "+v", "-v", "+h", "+q", "-a"}[g.Intn(7)], u.nicks[g.Intn(len(u.nicks))]}}
				}
			}
			// readers matter as much as writers here: a snapshot taken while
			// another task is half-way through a mutation is what breaks atomicity
			switch g.W(6, 1, 1, 1) {
			case 1:
				op = tOp{"Me", nil}
			case 2:
				op = tOp{"GetNick", []string{u.nicks[g.Intn(len(u.nicks))]}}
			case 3:
				op = tOp{"GetChannel", []string{u.chans[g.Intn(len(u.chans))]}}
			}
			if lonely && g.Pct(25) {
				// deletions and the readers that can see one half-way
				switch g.Intn(4) {
				case 0:
					op = tOp{"DelNick", []string{"a"}}
				case 1:
					op = tOp{"GetNick", []string{"a"}}
				default:
					op = tOp{"GetChannel", []string{u.chans[g.Intn(len(u.chans))]}}
				}
			}
			plans[t].ops = append(plans[t].ops, op)
			plans[t].use = append(plans[t].use, g.Intn(3) == 0)
			applyOp(shadow, op)
		}
	}
	done := 0
	for t := 0; t < nTasks; t++ {
		t := t
		e.S.Spawn(fmt.Sprintf("caller%d", t), func() {
			for i, op := range plans[t].ops {
				var mine state.Tracker = st
				if second[t] {
					mine = st2
				}
				call := e.S.Stamp()
				out, val := applyOp(mine, op)
				ret := e.S.Stamp()
				if second[t] {
					ops2 = append(ops2, porcupine.Operation{ClientId: t, Input: op, Call: int64(call), Output: out, Return: int64(ret)})
				} else {
					ops = append(ops, porcupine.Operation{ClientId: t, Input: op, Call: int64(call), Output: out, Return: int64(ret)})
				}
				if plans[t].use[i] {
					// a snapshot belongs to its caller: using it takes no lock and
					// must not meet anything another task touches (what this is worth
					// is decided by the race detector in the memory-model tier)
					useSnapshot(val)
				}
			}
			done++
		})
	}
	if !simrt.BlockFor("state", "concurrent callers", time.Hour, func() bool { return done == nTasks }) {
		e.Violation("stuck", "concurrent tracker calls did not all return (a lock leaked on some path?)\n%s", e.S.TaskDump())
		return
	}
	e.S.Joined()
	model := porcupine.Model{
		Init: func() interface{} { return linState{m0, m0.encode()} },
		Step: func(s, in, out interface{}) (bool, interface{}) {
			ls := s.(linState)
			m := ls.m.clone()
			got, _ := applyOp(m, in.(tOp))
			return got == out.(string), linState{m, m.encode()}
		},
		Equal: func(a, b interface{}) bool { return a.(linState).enc == b.(linState).enc },
		DescribeOperation: func(in, out interface{}) string {
			return fmt.Sprintf("%s -> %s", in.(tOp), out)
		},
	}
	res := porcupine.CheckOperationsTimeout(model, ops, 20*time.Second)
	if res == porcupine.Ok && len(ops2) > 0 {
		ops = ops2
		res = porcupine.CheckOperationsTimeout(model, ops, 20*time.Second)
	}
	e.Check()
	total := 0
	for _, p := range plans {
		total += len(p.ops)
	}
	e.Notef("linearizability: %d tasks, %d operations, %d pre-loaded; result %v", nTasks, total, npre, res)
	switch res {
	case porcupine.Illegal:
		var b strings.Builder
		for _, o := range ops {
			fmt.Fprintf(&b, "  task %d [%d..%d] %s -> %s\n", o.ClientId, o.Call, o.Return, o.Input.(tOp), o.Output)
		}
		e.Violation("not-linearizable", "no sequential order of these concurrent tracker calls, consistent with their real-time order, explains the results (initial state %s):\n%s", m0.encode(), b.String())
	case porcupine.Unknown:
		e.S.Count("probe.porcupine-timeout")
	}
}
