package worlds

import (
	"context"
	"errors"
	"fmt"
	"reflect"
	"sort"
	"strings"
	"time"

	sasl "github.com/emersion/go-sasl"
	"github.com/fluffle/goirc/client"

	"verifsim/simnet"
	"verifsim/simrt"
)

// W-dispatch: event stream + handler-mutation tasks + misbehaving handlers.
// Decides C03, C04, C15 and C16.
func init() {
	register(&World{Name: "dispatch", Run: dispatchRun, MaxSteps: 3000000, MaxSimTime: 200 * time.Hour})
}

func dispatchRun(e *Env) {
	switch e.Prop {
	case "C04":
		handlerHistory(e)
	case "C16":
		if (G{e.S}).Pct(15) {
			stuckSender(e)
		} else {
			misbehave(e)
		}
	default:
		orderAndCopies(e)
	}
}

// one numbered event on the wire
type evLine struct {
	seq  int
	verb string // as sent (any case)
	wire string
	exp  *client.Line // expected parse (all fields but Time)
	at   uint64       // stamp when the server put it on the wire
}

func mkEvent(g G, seq int, verb string, tagged bool, long bool) *evLine {
	payload := fmt.Sprintf("payload %d", seq)
	if long {
		payload += " " + strings.Repeat("z", 4200+seq%300)
	}
	ev := &evLine{seq: seq, verb: verb}
	exp := &client.Line{Nick: "u", Ident: "i", Host: "h.sim", Src: "u!i@h.sim", Cmd: strings.ToUpper(verb)}
	nargs := g.Range(0, 12)
	args := []string{"#c", fmt.Sprint(seq)}
	for k := 0; k < nargs; k++ {
		args = append(args, fmt.Sprintf("a%d", k))
	}
	args = append(args, payload)
	exp.Args = args
	var w strings.Builder
	if tagged {
		switch g.W(6, 1, 1, 1) {
		case 0:
			exp.Tags = map[string]string{"seq": fmt.Sprint(seq), "k": "v w"}
			w.WriteString("@seq=" + fmt.Sprint(seq) + ";k=v\\sw ")
		case 1: // a tag section that is present but empty
			exp.Tags = map[string]string{}
			w.WriteString("@ ")
		case 2:
			exp.Tags = map[string]string{}
			w.WriteString("@;; ")
		default: // a single key-only tag
			exp.Tags = map[string]string{"solo": ""}
			w.WriteString("@solo ")
		}
	}
	w.WriteString(":u!i@h.sim " + verb + " " + strings.Join(args[:len(args)-1], " ") + " :" + payload)
	ev.wire = w.String()
	exp.Raw = ev.wire
	ev.exp = exp
	return ev
}

// snapshotLine is an independent deep copy made by the harness itself.
func snapshotLine(l *client.Line) *client.Line {
	c := *l
	c.Args = append([]string(nil), l.Args...)
	if l.Args == nil {
		c.Args = nil
	}
	if l.Tags != nil {
		c.Tags = make(map[string]string, len(l.Tags))
		for k, v := range l.Tags {
			c.Tags[k] = v
		}
	}
	return &c
}

func seqOf(l *client.Line) int {
	if len(l.Args) < 2 {
		// (parameterless events of the handler-history world carry it as a tag)
		var n int
		if _, err := fmt.Sscanf(l.Tags["seq"], "%d", &n); err == nil && l.Tags["hist"] != "" {
			return n
		}
		return -1
	}
	var n int
	if _, err := fmt.Sscanf(l.Args[1], "%d", &n); err != nil {
		return -1
	}
	return n
}

type invRec struct {
	h           int
	seq         int
	enter, exit uint64
	set         string // fg | bg
}

// ---------------------------------------------------------------------------
// C03 and C15

func orderAndCopies(e *Env) {
	g := G{e.S}
	c15 := e.Prop == "C15"
	// verbs with and without built-in handlers (PING is answered by the client
	// itself, MODE/JOIN/TOPIC go through the tracker first)
	pool := []string{"PRIVMSG", "NOTICE", "TOPIC", "372", "FOO", "PING", "MODE", "JOIN", "PONG", "INVITE"}
	if c15 {
		// a verb the server sends may be any word, also one the client uses as
		// the name of an event of its own: such a line is an event like any other
		pool = append(pool, "REGISTER")
	}
	for i := len(pool) - 1; i > 0; i-- {
		j := g.Intn(i + 1)
		pool[i], pool[j] = pool[j], pool[i]
	}
	verbs := pool[:g.Range(1, 5)]
	n := []int{1, 3, 8, 20, 40, 80, 150, 300}[g.Intn(8)]
	if c15 && n > 40 {
		n = 40
	}
	welcomeAt := g.Intn(n + 1)
	var evs []*evLine
	for i := 0; i < n; i++ {
		evs = append(evs, mkEvent(g, i, mixCase(g, verbs[g.Intn(len(verbs))]), i%2 == 0 || g.Pct(30), g.Pct(3)))
	}
	early := g.W(6, 2, 2) // 0 none, 1 Close from a task at a random point, 2 server EOF part-way
	cutAt := g.Intn(n + 1)
	// after an early end the same client may connect again: nothing of the first
	// connection may be delivered once its DISCONNECTED has been
	second := early != 0 && g.Bool()
	pollReconnect := second && g.Pct(40)
	pollDone := false
	var pollErr error
	n2 := 0
	if second {
		n2 = g.Range(1, 30)
		for j := 0; j < n2; j++ {
			evs = append(evs, mkEvent(g, n+j, mixCase(g, verbs[g.Intn(len(verbs))]), g.Bool(), false))
		}
	}
	sent2 := false
	var welcome2At uint64 // event number at which the second connection's server sent its welcome
	// "however long handlers take": the dial/keep-alive timeout is a tuning knob
	// that must not bound handler time, so it is varied and a few invocations
	// outlast it several times over
	timeout := []time.Duration{0, 0, 300 * time.Millisecond, 2 * time.Second, 20 * time.Second}[g.Intn(5)]
	effTimeout := timeout
	if effTimeout == 0 {
		effTimeout = 60 * time.Second
	}
	longLeft := g.W(6, 2, 2) // invocations that sleep 1.2-3 x the timeout
	oc := ClientOpts{Nick: "me", Flood: true, Track: g.Pct(30), PingFreq: []time.Duration{0, 3 * time.Second}[g.Intn(2)], Timeout: timeout}
	barePing := false
	if c15 && g.Bool() {
		// a recovery function that annotates the line it is handed (the copy of
		// the invocation that panicked), and bare PING lines on which the
		// built-in handler panics: no other invocation may see the annotation
		oc.Recover = func(c *client.Conn, l *client.Line) {
			if r := recover(); r != nil {
				l.Args = append(l.Args, "annotated-by-recover")
				l.Tags = map[string]string{"panicked": "yes"}
				l.Nick = "mallory"
			}
		}
		barePing = true
		for _, v := range verbs {
			if v == "PING" {
				barePing = false
			}
		}
	}
	closeErr := g.Pct(30)
	s := startSession(e, g.Knobs(oc),
		func(l *simnet.Link) {
			l.ChunkMode = g.Intn(4)
			l.Window = []int{0, 0, 0, 16, 64, 300}[g.Intn(6)]
			l.CloseErr = closeErr
		})
	longBudget := time.Duration(longLeft) * 3 * effTimeout
	// replace the default scripted server: registration, then the stream with
	// the welcome somewhere inside it
	causeBegun := false
	allSent := false
	dialNo := 0
	e.OnDial = func(l *simnet.Link) {
		dialNo++
		if dialNo == 2 {
			e.S.Spawn("server2", func() {
				if _, ok := Registration(l, time.Hour); !ok {
					return
				}
				welcome2At = e.S.Stamp()
				l.SendLine(":irc.sim 001 me2 :Welcome back me2!i@h.sim")
				for j := 0; j < n2; j++ {
					evs[n+j].at = e.S.Stamp()
					l.SendLine(evs[n+j].wire)
				}
				sent2 = true
				for {
					if _, ok := l.RecvLine(); !ok {
						return
					}
				}
			})
			return
		}
		s.l = l
		e.S.Spawn("server", func() {
			if _, ok := Registration(l, time.Hour); !ok {
				return
			}
			s.ready = true
			for i := 0; i <= n; i++ {
				if i == welcomeAt {
					l.SendLine(":irc.sim 001 me2 :Welcome to the sim me2!i@h.sim")
				}
				if i == n {
					break
				}
				if early == 2 && i == cutAt {
					causeBegun = true
					l.CloseByServer()
					return
				}
				evs[i].at = e.S.Stamp()
				l.SendLine(evs[i].wire)
				if c15 && e.S.Choose(6) == 0 {
					if e.S.Choose(2) == 0 {
						l.SendLine("@account=bob;time=2026-10-01T00:00:00.000Z :u!i@h.sim AWAY")
					} else {
						l.SendLine(":u!i@h.sim AWAY")
					}
				}
				if barePing && e.S.Choose(6) == 0 {
					l.SendLine("PING")
				}
				if e.S.Choose(5) == 0 {
					simrt.Sleep(time.Duration(e.S.Choose(3)) * time.Millisecond)
				}
			}
			allSent = true
			for {
				if _, ok := l.RecvLine(); !ok {
					return
				}
			}
		})
	}
	var invs []*invRec
	nh := 0
	type keptLine struct {
		l    *client.Line
		snap *client.Line
		r    *invRec
	}
	var kept []keptLine
	handedOut := map[*client.Line]*invRec{}
	type connRec struct {
		enter, exit uint64
		nick        string
	}
	var connected []connRec
	var discEnter []uint64
	// now and then one verb has a crowd of handlers in one set (a bot with a
	// plugin per feature): "every invocation" has no upper bound on how many
	crowdVerb := ""
	if n <= 20 && g.Pct(15) {
		crowdVerb = verbs[g.Intn(len(verbs))]
	}
	// in some runs the client has no background handler at all to begin with, and
	// the first ones are registered by a foreground handler while its own event
	// is in flight (the event's background dispatch may or may not see them): a
	// handler registered that late still gets, per invocation, one parsed event -
	// never an event twice, never another event's contents
	lateBG := c15 && g.Pct(35)
	lateAt := g.Intn(n)
	addHandlers := func(verb string) {
		nf := g.Range(1, 4)
		nb := g.Range(0, 2)
		if lateBG {
			nb = 0
		}
		if verb == crowdVerb && !lateBG {
			if g.Bool() {
				nf = g.Range(9, 19)
			} else {
				nb = g.Range(9, 19)
			}
			e.S.Count("probe.crowd-of-handlers-for-one-event")
		}
		for k := 0; k < nf+nb; k++ {
			id := nh
			nh++
			bg := k >= nf
			dur := time.Duration(0)
			if g.Pct(25) && (verb != crowdVerb || g.Pct(20)) {
				dur = time.Duration(g.Range(1, 2000)) * time.Millisecond
			}
			yields := g.W(5, 2, 1) * 7
			scribble := c15 || g.Pct(30)
			h := client.HandlerFunc(func(c *client.Conn, l *client.Line) {
				if l.Cmd == client.REGISTER && l.Raw == "" {
					// the client's own event of that name, raised by Connect: not a
					// line from the server and no part of the numbered stream
					return
				}
				r := &invRec{h: id, seq: seqOf(l), set: "fg"}
				if bg {
					r.set = "bg"
				}
				r.enter = e.S.Stamp()
				invs = append(invs, r)
				if c15 {
					e.Check()
					if prev, dup := handedOut[l]; dup {
						e.Violation("line-altered", "%s handler %d (event %d) was given the very *Line that handler %d had been given for event %d", r.set, id, seqOf(l), prev.h, prev.seq)
						return
					}
					handedOut[l] = r
					if r.seq < 0 || r.seq >= len(evs) {
						e.Violation("line-altered", "handler %d received a line without a valid sequence number: Cmd=%q Args=%q (another invocation's edits?)", id, l.Cmd, l.Args)
						return
					}
					if d := lineDiff(l, evs[r.seq].exp); d != "" {
						e.Violation("line-altered", "%s handler %d entered for event %d with a line that is not the parsed event: %s", r.set, id, r.seq, d)
						return
					}
				}
				var mine *client.Line
				if scribble && r.seq >= 0 {
					// edit everything reachable
					for i := range l.Args {
						l.Args[i] = fmt.Sprintf("scribble-%d-%d", id, i)
					}
					l.Args = append(l.Args, "appended")
					if len(l.Args) > 3 && id%2 == 0 {
						l.Args = l.Args[:2]
					}
					if l.Tags != nil {
						for _, k := range sortedKeys(l.Tags) {
							l.Tags[k] = fmt.Sprintf("tag-scribble-%d", id)
						}
						delete(l.Tags, "k")
						l.Tags["new"] = fmt.Sprint(id)
					}
					l.Cmd, l.Nick, l.Raw = "SCRIBBLED", "x", "y"
					mine = l.Copy()
				}
				for i := 0; i < yields; i++ {
					simrt.Sleep(0)
				}
				if dur > 0 {
					simrt.Sleep(dur)
				}
				if longLeft > 0 && !bg && g.S.Choose(4) == 0 {
					longLeft--
					e.S.Count("probe.handler-outlasts-config-timeout")
					simrt.Sleep(effTimeout * time.Duration(12+g.S.Choose(19)) / 10)
				}
				if mine != nil && c15 {
					e.Check()
					if !reflect.DeepEqual(l.Args, mine.Args) || !reflect.DeepEqual(l.Tags, mine.Tags) {
						e.Violation("own-edits-lost", "%s handler %d (event %d): its own edits to its line were changed by someone else: Args=%q Tags=%q, had written Args=%q Tags=%q", r.set, id, r.seq, l.Args, l.Tags, mine.Args, mine.Tags)
						return
					}
				}
				if c15 {
					// the handler keeps its line (e.g. queues it for a worker): it
					// must stay as it is now, whatever is dispatched later
					kept = append(kept, keptLine{l, snapshotLine(l), r})
				}
				r.exit = e.S.Stamp()
			})
			if bg {
				s.c.HandleBG(mixCase(g, verb), h)
			} else {
				s.c.Handle(mixCase(g, verb), h)
			}
		}
	}
	for _, v := range verbs {
		addHandlers(v)
	}
	if !c15 {
		// one-shot handlers: removed while their (only) invocation is still at
		// work - by the handler itself as its first act, or by another task that
		// waits for it to start.  Being removed does not end the invocation: the
		// next line must still wait for it, and so must DISCONNECTED
		for _, v := range verbs {
			if !g.Pct(25) {
				continue
			}
			id := nh
			nh++
			byOther := g.Bool()
			work := time.Duration(g.Range(1, 1500)) * time.Millisecond
			var rm client.Remover
			started, removed := false, false
			e.S.Count("probe.handler-removed-while-its-invocation-runs")
			rm = s.c.HandleFunc(mixCase(g, v), func(c *client.Conn, l *client.Line) {
				r := &invRec{h: id, seq: seqOf(l), set: "fg"}
				r.enter = e.S.Stamp()
				invs = append(invs, r)
				started = true
				if byOther {
					simrt.BlockFor("one-shot", "removal by another task", time.Minute, func() bool { return removed })
				} else if !removed {
					removed = true
					rm.Remove()
				}
				for i := 0; i < 14; i++ {
					simrt.Sleep(0)
				}
				simrt.Sleep(work)
				r.exit = e.S.Stamp()
			})
			if byOther {
				e.S.Spawn(fmt.Sprintf("remover%d", id), func() {
					if simrt.BlockFor("remover", "the one-shot handler to start", 40*time.Hour, func() bool { return started }) {
						rm.Remove()
						removed = true
					}
				})
			}
		}
	}
	// lines with no parameters and no tags at all (":u!i@h.sim AWAY"), and the
	// events the client raises itself, have nothing to copy but the Line: every
	// invocation must still get a Line of its own
	bareSeen := 0
	bareHandler := func(kind string) client.HandlerFunc {
		return func(c *client.Conn, l *client.Line) {
			if !c15 {
				return
			}
			if l.Cmd == client.REGISTER && l.Raw != "" {
				// a numbered line of the stream whose verb happens to be the name of
				// a client event: the numbered handlers judge it
				return
			}
			bareSeen++
			e.Check()
			if prev, dup := handedOut[l]; dup {
				e.Violation("line-altered", "a %s handler for the parameterless event %s was given the very *Line another invocation (handler %d) had been given", kind, l.Cmd, prev.h)
				return
			}
			handedOut[l] = &invRec{h: -1, seq: -1, set: kind}
			// (some of the parameterless lines carry tags: account-notify style)
			tagsOK := l.Tags == nil || reflect.DeepEqual(l.Tags, map[string]string{"account": "bob", "time": "2026-10-01T00:00:00.000Z"})
			if len(l.Args) != 0 || !tagsOK || (l.Nick != "u" && l.Nick != "") {
				e.Violation("line-altered", "a %s handler for the parameterless event %s received Args=%q Tags=%q Nick=%q (another invocation's edits?)", kind, l.Cmd, l.Args, l.Tags, l.Nick)
				return
			}
			l.Args = append(l.Args, "edited")
			if l.Tags != nil {
				// edit the map that came with the line, in place
				l.Tags["account"] = "mallory"
				delete(l.Tags, "time")
				l.Tags["seen-by"] = kind
			} else {
				l.Tags = map[string]string{"edited": "yes"}
			}
			l.Nick = "mallory"
			for i := e.S.Choose(3); i > 0; i-- {
				simrt.Sleep(0)
			}
		}
	}
	if c15 {
		for k := g.Range(2, 3); k > 0; k-- {
			s.c.Handle("AWAY", bareHandler("fg"))
			s.c.Handle(client.CONNECTED, bareHandler("fg"))
			s.c.Handle(client.REGISTER, bareHandler("fg"))
			if barePing {
				s.c.Handle("PING", bareHandler("fg"))
			}
			if lateBG {
				continue
			}
			s.c.HandleBG("AWAY", bareHandler("bg"))
			s.c.HandleBG(client.DISCONNECTED, bareHandler("bg"))
			if barePing {
				s.c.HandleBG("PING", bareHandler("bg"))
			}
		}
	}
	lateSeen := map[int]map[int]int{} // late handler -> event -> invocations
	if lateBG {
		e.S.Count("probe.first-background-handlers-registered-while-an-event-is-in-flight")
		armed := true
		for _, v := range verbs {
			v := v
			s.c.HandleFunc(v, func(c *client.Conn, l *client.Line) {
				if !armed || seqOf(l) < lateAt {
					return
				}
				armed = false
				for k := g.S.Choose(3) + 1; k > 0; k-- {
					id := nh
					nh++
					lateSeen[id] = map[int]int{}
					c.HandleBG(evs[seqOf(l)].verb, client.HandlerFunc(func(c *client.Conn, l *client.Line) {
						if l.Cmd == client.REGISTER && l.Raw == "" {
							return
						}
						q := seqOf(l)
						e.Check()
						if q < 0 || q >= len(evs) {
							e.Violation("line-altered", "background handler %d, registered while an event was in flight, received a line without a valid sequence number: Cmd=%q Args=%q", id, l.Cmd, l.Args)
							return
						}
						if d := lineDiff(l, evs[q].exp); d != "" {
							e.Violation("line-altered", "background handler %d, registered while an event was in flight, received a line that is not a parsed event (sequence number %d): %s", id, q, d)
							return
						}
						lateSeen[id][q]++
						if lateSeen[id][q] > 1 {
							e.Violation("line-altered", "background handler %d, registered while an event was in flight, was invoked %d times with the contents of event %d: one of those invocations was for another event and got this one's line", id, lateSeen[id][q], q)
							return
						}
						for i := range l.Args {
							l.Args[i] = "late-scribble"
						}
					}))
				}
				for i := g.S.Choose(4) * 4; i > 0; i-- {
					simrt.Sleep(0)
				}
			})
		}
	}
	for k := g.Range(1, 2); k > 0; k-- {
		s.c.HandleFunc(client.CONNECTED, func(c *client.Conn, l *client.Line) {
			r := connRec{enter: e.S.Stamp(), nick: c.Me().Nick}
			for i := g.S.Choose(4) * 5; i > 0; i-- {
				simrt.Sleep(0)
			}
			if longLeft > 0 && g.S.Choose(3) == 0 {
				longLeft--
				e.S.Count("probe.handler-outlasts-config-timeout")
				simrt.Sleep(effTimeout * time.Duration(12+g.S.Choose(19)) / 10)
			}
			r.exit = e.S.Stamp()
			connected = append(connected, r)
		})
	}
	nConnH := 0
	s.c.HandleFunc(client.CONNECTED, func(c *client.Conn, l *client.Line) { nConnH++ })
	s.c.HandleFunc(client.DISCONNECTED, func(c *client.Conn, l *client.Line) { discEnter = append(discEnter, e.S.Stamp()) })
	twoConnects := !c15 && early == 0 && g.Pct(12)
	var secondErr error
	secondDone := true
	if twoConnects {
		// two parts of the application call Connect at nearly the same time while
		// the dial takes a moment: one of them gets the connection, the other is
		// refused - there is one connection and one event loop
		e.S.Count("fault.second-connect-while-the-first-is-dialling")
		secondDone = false
		e.DialWait = func(ctx context.Context, n int) error {
			simrt.Sleep(time.Duration(1+g.S.Choose(5)) * time.Millisecond)
			return nil
		}
		e.S.Spawn("second-connect", func() {
			simrt.Sleep(time.Duration(g.S.Choose(3)) * time.Millisecond)
			secondErr = s.c.Connect()
			secondDone = true
		})
	}
	firstErr := s.c.Connect()
	if twoConnects {
		simrt.BlockFor("dispatch", "the second Connect to return", time.Hour, func() bool { return secondDone })
		e.DialWait = nil
		e.Check()
		if (firstErr == nil) == (secondErr == nil) {
			e.Violation("overlap", "two overlapping Connect calls on one client returned %v and %v: exactly one of them may establish the connection (two event loops would handle lines side by side)", firstErr, secondErr)
			return
		}
		firstErr = nil
	}
	if err := firstErr; err != nil {
		e.Violation("harness-connect", "Connect failed: %v", err)
		return
	}
	if pollReconnect {
		// an application that reconnects as soon as Connected() turns false,
		// i.e. possibly while the old connection's last handler is still running
		e.S.Count("fault.reconnect-by-polling-connected")
		e.S.Spawn("reconnect-poller", func() {
			if !simrt.BlockFor("reconnect-poller", "something to end the connection", 3*time.Hour, func() bool { return causeBegun }) {
				pollDone = true
				return
			}
			for k := 0; s.c.Connected(); k++ {
				simrt.Sleep(time.Duration(1+e.S.Choose(3)) * 500 * time.Microsecond)
				if e.S.Failed() || k > 100000 {
					pollDone = true
					return
				}
			}
			pollErr = s.c.Connect()
			pollDone = true
		})
	}
	if !c15 && g.Pct(35) {
		// meanwhile another goroutine of the application registers further
		// foreground handlers for the verbs of the stream, and removes some of them
		// again: the calls land anywhere in the event loop's dispatch of those very
		// verbs.  Whatever is invoked is an invocation like the others: the next line
		// waits for it
		e.S.Count("probe.foreground-handlers-registered-from-another-task-during-the-stream")
		nReg := g.Range(3, 14)
		e.S.Spawn("registrar", func() {
			var rms []client.Remover
			for k := 0; k < nReg && !allSent && !causeBegun && !e.S.Failed(); k++ {
				for i := e.S.Choose(40); i > 0; i-- {
					simrt.Sleep(0)
				}
				if e.S.Choose(4) == 0 {
					simrt.Sleep(time.Duration(e.S.Choose(2000)) * time.Microsecond)
				}
				if len(rms) > 0 && e.S.Choose(3) == 0 {
					rms[len(rms)-1].Remove()
					rms = rms[:len(rms)-1]
					continue
				}
				id := nh
				nh++
				yields := e.S.Choose(3) * 9
				rms = append(rms, s.c.HandleFunc(verbs[e.S.Choose(len(verbs))], func(c *client.Conn, l *client.Line) {
					if l.Cmd == client.REGISTER && l.Raw == "" {
						return
					}
					r := &invRec{h: id, seq: seqOf(l), set: "fg"}
					r.enter = e.S.Stamp()
					invs = append(invs, r)
					for i := 0; i < yields; i++ {
						simrt.Sleep(0)
					}
					r.exit = e.S.Stamp()
				}))
			}
		})
	}
	if early == 1 {
		e.S.Spawn("closer", func() {
			simrt.Sleep(time.Duration(g.S.Choose(40)) * 50 * time.Millisecond)
			causeBegun = true
			s.c.Close()
		})
	}
	e.Notef("%d lines over %v, %d handlers, welcome at %d, early end=%s", n, verbs, nh, welcomeAt, []string{"none", "Close from a task", "server EOF part-way"}[early])
	// expected fg invocations per line: handlers registered for its verb
	simrt.BlockFor("dispatch", "stream sent or ended", 50*time.Hour, func() bool { return allSent || causeBegun })
	simrt.Settle(time.Duration(n)*3*time.Second + 30*time.Second + longBudget)
	if early == 0 {
		causeBegun = true
		s.c.Close()
		simrt.Settle(10 * time.Second)
	} else {
		simrt.BlockFor("dispatch", "DISCONNECTED", time.Hour+longBudget, func() bool { return len(discEnter) > 0 })
		simrt.Settle(10 * time.Second)
		if pollReconnect && len(discEnter) > 0 {
			if !simrt.BlockFor("dispatch", "the polling task's Connect to return", time.Hour, func() bool { return pollDone }) {
				e.Violation("harness-connect", "the task that reconnects as soon as Connected() is false did not return from Connect\n%s", e.S.TaskDump())
				return
			}
			if pollErr != nil {
				e.Violation("harness-connect", "reconnect by the polling task failed: %v", pollErr)
				return
			}
		}
		if second && len(discEnter) > 0 {
			e.S.Count("fault.reconnect-after-early-end")
			if !pollReconnect {
				if err := s.c.Connect(); err != nil {
					e.Violation("harness-connect", "reconnect failed: %v", err)
					return
				}
			}

			simrt.BlockFor("dispatch", "second stream sent", time.Hour, func() bool { return sent2 })
			simrt.Settle(time.Duration(n2)*3*time.Second + 30*time.Second + longBudget)
			s.c.Close()
			simrt.Settle(10 * time.Second)
		}
	}
	if c15 {
		e.Check()
		for _, k := range kept {
			if d := lineDiff(k.l, k.snap); d != "" {
				e.Violation("line-altered", "the line %s handler %d kept from event %d changed after the handler had returned: %s", k.r.set, k.r.h, k.r.seq, d)
				return
			}
		}
		return
	}
	// ---- C03 oracle over the recorded history ----
	// fg invocations grouped by line
	byLine := map[int][]*invRec{}
	perH := map[int][]int{}
	for _, r := range invs {
		if r.set != "fg" {
			continue
		}
		if r.exit == 0 {
			e.Violation("handler-unfinished", "a foreground invocation (handler %d, line %d) had not finished at the end of the run", r.h, r.seq)
			return
		}
		byLine[r.seq] = append(byLine[r.seq], r)
		perH[r.h] = append(perH[r.h], r.seq)
	}
	for _, h := range sortedInts(perH) {
		seqs := perH[h]
		for i := 1; i < len(seqs); i++ {
			e.Check()
			if seqs[i] <= seqs[i-1] {
				e.Violation("order", "foreground handler %d saw line %d after line %d (reordered or duplicated): %v", h, seqs[i], seqs[i-1], seqs)
				return
			}
		}
	}
	lines := sortedInts(byLine)
	var maxExit uint64
	prev := -1
	for _, ln := range lines {
		var minEnter uint64 = ^uint64(0)
		var mx uint64
		for _, r := range byLine[ln] {
			if r.enter < minEnter {
				minEnter = r.enter
			}
			if r.exit > mx {
				mx = r.exit
			}
		}
		e.Check()
		if prev >= 0 && minEnter < maxExit {
			e.Violation("overlap", "a foreground handler for line %d started (event %d) before all foreground handlers for line %d had finished (event %d)", ln, minEnter, prev, maxExit)
			return
		}
		if mx > maxExit {
			maxExit = mx
		}
		prev = ln
	}
	// nothing missing when the connection was not ended early
	if early == 0 {
		want := 0
		for _, ev := range evs {
			_ = ev
			want++
		}
		for i, ev := range evs {
			e.Check()
			if len(byLine[i]) == 0 {
				e.Violation("missing", "line %d (%s) was never delivered to its foreground handlers although the connection stayed up", i, ev.verb)
				return
			}
		}
	}
	// CONNECTED: after every line before the welcome, before every line after it,
	// with the welcome applied
	if len(connected) > 0 && (len(discEnter) == 0 || connected[0].enter < discEnter[0]) {
		// (a CONNECTED recorded after the first DISCONNECTED belongs to the second connection)
		for _, cr := range connected[:1] {
			e.Check()
			if cr.nick != "me2" {
				e.Violation("connected-before-welcome-applied", "a CONNECTED handler saw Me().Nick=%q, the welcome said me2", cr.nick)
				return
			}
			for _, ln := range lines {
				for _, r := range byLine[ln] {
					if ln >= n {
						continue // the second connection's lines
					}
					if ln < welcomeAt && r.exit > cr.enter {
						e.Violation("connected-order", "CONNECTED was delivered (event %d) before a foreground handler of earlier line %d finished (event %d)", cr.enter, ln, r.exit)
						return
					}
					if ln >= welcomeAt && r.enter < cr.exit {
						e.Violation("connected-order", "a foreground handler of later line %d started (event %d) before CONNECTED handlers finished (event %d)", ln, r.enter, cr.exit)
						return
					}
				}
			}
		}
	} else if early == 0 {
		e.Violation("connected-missing", "the welcome was sent but CONNECTED was never delivered (%d)", nConnH)
		return
	}
	// the second connection has a welcome of its own: CONNECTED is delivered for
	// it too, before any of its later lines - whatever state the first connection
	// was in when it went down (its own welcome may have been in flight)
	if second && sent2 && len(discEnter) > 0 {
		var firstFg uint64
		delivered := 0
		for _, ln := range lines {
			if ln < n {
				continue
			}
			for _, r := range byLine[ln] {
				delivered++
				if firstFg == 0 || r.enter < firstFg {
					firstFg = r.enter
				}
			}
		}
		if delivered > 0 {
			ok := false
			for _, cr := range connected {
				// (after the second welcome was sent: the first connection has been
				// torn down by then, its handlers included)
				if cr.enter > welcome2At && cr.exit <= firstFg {
					ok = true
				}
			}
			e.Check()
			if !ok {
				e.Violation("connected-missing", "the second connection was welcomed and %d of its lines were delivered (the first at event %d), but no CONNECTED handler ran between the sending of its welcome (event %d) and that line (CONNECTED invocations: %d in all)", delivered, firstFg, welcome2At, len(connected))
				return
			}
		}
	}
	// DISCONNECTED after every foreground invocation finished
	for k, d := range discEnter {
		// connection k+1's lines: the first n (first connection) or the rest
		var last uint64
		lastLn := -1
		for _, ln := range lines {
			if (k == 0) != (ln < n) {
				continue
			}
			for _, r := range byLine[ln] {
				if r.exit > last {
					last, lastLn = r.exit, ln
				}
			}
		}
		e.Check()
		if d < last {
			e.Violation("disconnected-early", "DISCONNECTED of connection %d was delivered (event %d) before a foreground handler of that connection's line %d had finished (event %d)", k+1, d, lastLn, last)
			return
		}
	}
}

func sortedInts[V any](m map[int]V) []int {
	ks := make([]int, 0, len(m))
	for k := range m {
		ks = append(ks, k)
	}
	sort.Ints(ks)
	return ks
}

// ---------------------------------------------------------------------------
// C16: misbehaving handlers

type customPanic struct{ code int }

type uncomparablePanic struct{ codes []int }

func (u uncomparablePanic) Error() string { return fmt.Sprint("uncomparable ", u.codes) }

// panic values that cannot be asked what they are without panicking again
type touchyErr struct{ msg string }

func (t *touchyErr) Error() string { return t.msg }

type touchyStringer struct{}

func (touchyStringer) String() string { panic("String() of the panic value panics") }

func misbehave(e *Env) {
	g := G{e.S}
	customRecover := g.Bool()
	type rcall struct {
		seq int
		cmd string
		val string
	}
	var recovered []rcall
	o := ClientOpts{Nick: "me", Flood: true, Track: g.Pct(40)}
	if g.Pct(40) {
		// with a SASL client configured the built-in AUTHENTICATE / CAP handlers
		// go further before a malformed line stops them
		o.Sasl = sasl.NewPlainClient("", "user", "pw")
		o.Caps = []string{"sasl"}
	}
	recoverFn := func(c *client.Conn, l *client.Line) {
		if r := recover(); r != nil {
			recovered = append(recovered, rcall{seqOf(l), l.Cmd, fmt.Sprint(r)})
		}
	}
	// the recovery function is configured either before the client exists or,
	// through Config(), once all handlers have been registered: "the configured
	// function" is the one in the configuration when the panic happens
	lateRecover := customRecover && g.Bool()
	if customRecover && !lateRecover {
		o.Recover = recoverFn
	}
	s := startSession(e, g.Knobs(o), func(l *simnet.Link) { l.ChunkMode = g.Intn(4); l.Window = []int{0, 0, 0, 16, 64, 300}[g.Intn(6)] })
	e.Log.Keep = true
	n := g.Range(1, 40)
	// sometimes a background handler that never returns for ANY event, and many
	// events: stuck invocations pile up for the whole run
	stuckAlways := g.Pct(15)
	if stuckAlways {
		n = g.Range(30, 90)
	}
	verbs := []string{"FOO", "BAR"}
	// a background handler that panics every time, for a long stretch of events,
	// and then behaves: each of its invocations is owed to it all the same
	serialPanicker := !stuckAlways && g.Pct(10)
	if serialPanicker {
		n = g.Range(68, 100)
		e.S.Count("probe.background-handler-panicking-at-every-event")
	}
	var evs []*evLine
	for i := 0; i < n; i++ {
		v := verbs[g.Intn(2)]
		if serialPanicker {
			v = "FOO"
		}
		evs = append(evs, mkEvent(g, i, v, g.Bool(), false))
	}
	// built-in handlers provoked by lines with too few parameters
	provoke := []string{"PING", ":irc.sim 433", ":irc.sim CAP", ":irc.sim 410", "AUTHENTICATE", ":u!i@h.sim NICK", ":irc.sim 908 me", "AUTHENTICATE", "AUTHENTICATE +", "AUTHENTICATE !notbase64!",
		":irc.sim CAP * ACK :sasl", ":irc.sim CAP * LS", ":irc.sim CAP * ACK", ":irc.sim 001", ":irc.sim 353 me = #c", ":irc.sim 352 me #c", ":u!i@h.sim MODE #c +o", ":u!i@h.sim KICK #c", ":irc.sim 324 me", ":irc.sim 332 me #c"}
	nProvoke := 0
	type hinfo struct {
		id      int
		verb    string
		bg      bool
		panics  map[int]int // seq -> kind of panic value
		blocks  map[int]bool
		counts  map[int]int
		doneFor map[int]bool
	}
	var hs []*hinfo
	panicsHappened := 0
	panicsPlanned := 0
	blocked := 0
	for _, v := range verbs {
		for k := g.Range(2, 5); k > 0; k-- {
			h := &hinfo{id: len(hs), verb: v, bg: g.Pct(40), panics: map[int]int{}, blocks: map[int]bool{}, counts: map[int]int{}, doneFor: map[int]bool{}}
			always := serialPanicker && v == "FOO" && len(hs) == 0
			if always {
				h.bg = true
			}
			for _, ev := range evs {
				if ev.verb != v {
					continue
				}
				switch {
				case always:
					if ev.seq < n-3 {
						h.panics[ev.seq] = g.Intn(10)
						panicsPlanned++
					}
				case g.Pct(15):
					h.panics[ev.seq] = g.Intn(10)
					panicsPlanned++
				case h.bg && g.Pct(10):
					h.blocks[ev.seq] = true
					blocked++
				}
			}
			hs = append(hs, h)
			fn := client.HandlerFunc(func(c *client.Conn, l *client.Line) {
				q := seqOf(l)
				h.counts[q]++
				if k, ok := h.panics[q]; ok {
					e.S.Count("fault.handler-panic")
					panicsHappened++
					switch k {
					case 0:
						panic(fmt.Sprintf("boom %d/%d", h.id, q))
					case 1:
						panic(errors.New("boom error"))
					case 2:
						var m map[string]int
						m["x"] = 1
					case 3:
						panic(customPanic{q})
					case 5:
						panic(l.Args) // a value that cannot be compared with ==
					case 6:
						panic(map[string]int{"seq": q})
					case 7:
						panic(uncomparablePanic{[]int{q}})
					case 8:
						// "any value": an error whose own Error method panics (a nil
						// pointer in a non-nil interface)
						var te *touchyErr
						panic(error(te))
					case 9:
						panic(touchyStringer{})
					default:
						var p *hinfo
						_ = p.id
					}
				}
				if h.blocks[q] {
					e.S.Count("fault.bg-handler-blocks-forever")
					simrt.Block("blocked-handler", "a background handler that never returns", func() bool { return false })
				}
				if g.S.Choose(4) == 0 {
					simrt.Sleep(time.Duration(g.S.Choose(300)) * time.Millisecond)
				}
				h.doneFor[q] = true
			})
			if h.bg {
				s.c.HandleBG(v, fn)
			} else {
				s.c.Handle(v, fn)
			}
		}
	}
	if stuckAlways {
		for k := g.Range(1, 2); k > 0; k-- {
			s.c.HandleBG(verbs[g.Intn(2)], client.HandlerFunc(func(c *client.Conn, l *client.Line) {
				e.S.Count("fault.bg-handler-blocks-forever")
				blocked++
				simrt.Block("blocked-handler", "a background handler that never returns", func() bool { return false })
			}))
		}
	}
	// one-shot handlers that go wrong: the first thing such a handler does is
	// remove itself, then it panics.  It is still an invocation that panicked:
	// the recovery function gets it, and nobody else suffers
	oneShotAt := map[int]int{}
	oneShots := 0
	if g.Pct(35) {
		for k := g.Range(1, 3); k > 0; k-- {
			v, bg := verbs[g.Intn(2)], g.Bool()
			var rm client.Remover
			fired := false
			fn := client.HandlerFunc(func(c *client.Conn, l *client.Line) {
				if fired {
					return // (a background invocation for the next event may have been started already)
				}
				fired = true
				rm.Remove()
				e.S.Count("fault.one-shot-handler-removes-itself-and-panics")
				panicsHappened++
				oneShots++
				oneShotAt[seqOf(l)]++
				panic(fmt.Sprintf("one-shot handler: removed, then boom at %d", seqOf(l)))
			})
			if bg {
				rm = s.c.HandleBG(v, fn)
			} else {
				rm = s.c.Handle(v, fn)
			}
		}
	}
	earlyEnd := g.W(6, 2, 2) // 0 none, 1 Close from a task, 2 server EOF
	endAfter := g.Intn(n + 1)
	disconnected := false
	s.c.HandleFunc(client.DISCONNECTED, func(*client.Conn, *client.Line) { disconnected = true })
	if lateRecover {
		e.S.Count("probe.recovery-function-configured-after-the-handlers")
		s.c.Config().Recover = recoverFn
	}
	// the client's own events have handlers that go wrong too: of several
	// REGISTER and CONNECTED handlers some panic, the others run all the same
	var ownRan []int
	var ownPanics []bool
	ownName := []string{client.REGISTER, client.CONNECTED}[g.Intn(2)]
	if g.Pct(30) {
		e.S.Count("probe.panicking-handlers-for-the-client's-own-events")
		for k := g.Range(2, 5); k > 0; k-- {
			i := len(ownRan)
			ownRan = append(ownRan, 0)
			ownPanics = append(ownPanics, g.Pct(45))
			fn := client.HandlerFunc(func(c *client.Conn, l *client.Line) {
				ownRan[i]++
				if ownPanics[i] {
					panic(fmt.Sprintf("%s handler %d panics", ownName, i))
				}
			})
			if g.Pct(25) {
				s.c.HandleBG(ownName, fn)
			} else {
				s.c.Handle(ownName, fn)
			}
		}
	}
	if !s.connect() {
		return
	}
	if len(ownRan) > 0 {
		simrt.Settle(time.Second)
		e.Check()
		for i, n := range ownRan {
			if n != 1 {
				e.Violation("sibling-or-later-not-run", "%d handlers are registered for %s, those panicking: %v; after Connect and the welcome handler %d has run %d times, want 1 (runs: %v)", len(ownRan), ownName, ownPanics, i, n, ownRan)
				return
			}
		}
	}
	errBefore := 0
	for _, r := range e.Log.Recs {
		if r.Level == "error" && strings.Contains(r.Text, "panic") {
			errBefore++
		}
	}
	// meanwhile the application goes on registering and removing handlers of its
	// own (another event name, both sets): a handler that is stuck or has
	// panicked must not stand in the way of that either, nor may those calls
	// hold up delivery
	regDone, regCalls := true, 0
	if g.Pct(50) {
		regDone = false
		e.S.Count("probe.handlers-registered-and-removed-while-others-misbehave")
		e.S.Spawn("registrar", func() {
			for k := 0; k < 6; k++ {
				simrt.Sleep(time.Duration(g.S.Choose(4)) * time.Millisecond)
				var rm client.Remover
				if g.S.Choose(2) == 0 {
					rm = s.c.HandleBG("QUX", client.HandlerFunc(func(*client.Conn, *client.Line) {}))
				} else {
					rm = s.c.HandleFunc("QUX", func(*client.Conn, *client.Line) {})
				}
				regCalls++
				if g.S.Choose(2) == 0 {
					simrt.Sleep(time.Duration(g.S.Choose(3)) * time.Millisecond)
					rm.Remove()
					regCalls++
				}
			}
			regDone = true
		})
	}
	ended := false
	closeReturned := false
	for i, ev := range evs {
		if earlyEnd != 0 && i == endAfter {
			// the connection ends while handlers (some of them panicking) are
			// running: recovery must still work and DISCONNECTED must be delivered
			ended = true
			e.S.Count("fault.connection-ended-while-handlers-panic")
			how := earlyEnd
			e.S.Spawn("ender", func() {
				for k := e.S.Choose(60); k > 0; k-- {
					simrt.Sleep(0)
				}
				if how == 1 {
					s.c.Close()
					closeReturned = true
				} else {
					s.l.CloseByServer()
				}
			})
			break
		}
		s.l.SendLine(ev.wire)
		if g.S.Choose(3) == 0 {
			p := provoke[g.S.Choose(len(provoke))]
			s.l.SendLine(p)
			nProvoke++
			e.S.Count("fault.builtin-handler-provoked")
		}
	}
	if ended {
		if !simrt.BlockFor("misbehave", "DISCONNECTED", 5*time.Minute, func() bool { return disconnected && (earlyEnd != 1 || closeReturned) }) {
			e.Violation("delivery-stopped", "the connection ended while handlers were panicking: DISCONNECTED delivered=%v, Close returned=%v after 5 simulated minutes (a later event is not delivered)\n%s", disconnected, closeReturned || earlyEnd != 1, e.S.TaskDump())
			return
		}
		simrt.Settle(time.Minute)
		e.Check()
		if customRecover {
			got := 0
			for _, r := range recovered {
				if r.cmd == "FOO" || r.cmd == "BAR" {
					got++
				}
			}
			if got != panicsHappened {
				e.Violation("panic-not-recovered", "%d handler invocations panicked, the configured recovery function caught %d", panicsHappened, got)
			}
		} else {
			errs := 0
			for _, r := range e.Log.Recs {
				if r.Level == "error" && strings.Contains(r.Text, "panic") {
					errs++
				}
			}
			if errs-errBefore < panicsHappened {
				e.Violation("panic-not-logged", "%d handler invocations panicked but the default recovery logged only %d errors", panicsHappened, errs-errBefore)
			}
		}
		return
	}
	s.l.SendLine("PING :fin")
	fin := false
	s.onLine = func(ln string) {
		if ln == "PONG :fin" {
			fin = true
		}
	}
	e.Notef("%d events, %d handlers, %d planned panics, %d blocking bg invocations, custom recover=%v, %d provoking lines", n, len(hs), panicsPlanned, blocked, customRecover, nProvoke)
	// foreground delivery of everything, including the final PING, must complete
	// although background handlers are blocked forever
	if !simrt.BlockFor("misbehave", "final PONG", time.Hour, func() bool { return fin }) {
		e.Violation("delivery-stopped", "after handler panics / a background handler that never returns, later events were not delivered (final PING unanswered)\n%s", e.S.TaskDump())
		return
	}
	simrt.Settle(time.Minute)
	e.Check()
	if !regDone {
		e.Violation("delivery-stopped", "a task that registers and removes handlers for another event is stuck after %d calls, in a run with panicking/blocking handlers\n%s", regCalls, e.S.TaskDump())
		return
	}
	for _, h := range hs {
		for _, ev := range evs {
			if ev.verb != h.verb {
				continue
			}
			e.Check()
			if h.counts[ev.seq] != 1 {
				e.Violation("sibling-or-later-not-run", "%s handler %d ran %d times for event %d (want exactly 1) in a run with panicking/blocking handlers", map[bool]string{false: "fg", true: "bg"}[h.bg], h.id, h.counts[ev.seq], ev.seq)
				return
			}
			_, pan := h.panics[ev.seq]
			if !pan && !h.blocks[ev.seq] && !h.doneFor[ev.seq] {
				e.Violation("handler-cut-short", "well-behaved %s handler %d did not run to completion for event %d", map[bool]string{false: "fg", true: "bg"}[h.bg], h.id, ev.seq)
				return
			}
		}
	}
	// every panic reached the configured recovery
	if customRecover {
		want := map[int]int{}
		for _, h := range hs {
			for q := range h.panics {
				want[q]++
			}
		}
		for q, k := range oneShotAt {
			want[q] += k
		}
		got := map[int]int{}
		for _, r := range recovered {
			if r.cmd == "FOO" || r.cmd == "BAR" {
				got[r.seq]++
			}
		}
		for _, q := range sortedInts(want) {
			e.Check()
			if got[q] != want[q] {
				e.Violation("panic-not-recovered", "event %d: %d handler invocations panicked, the configured recovery function caught %d (with the event's line)", q, want[q], got[q])
				return
			}
		}
	} else {
		errs := 0
		for _, r := range e.Log.Recs {
			if r.Level == "error" && strings.Contains(r.Text, "panic") {
				errs++
			}
		}
		e.Check()
		if errs-errBefore < panicsPlanned+oneShots {
			e.Violation("panic-not-logged", "%d handler invocations panicked but the default recovery logged only %d errors", panicsPlanned+oneShots, errs-errBefore)
			return
		}
	}
	s.c.Close()
}

// stuckSender: the background handler that never returns is one that is stuck
// in a send.  It is still reporting when the link goes down; what it sends then
// goes into the queue of the connection that has ended, which nobody drains, so
// it blocks for good.  The client reconnects; on the new connection every event
// must reach its foreground handlers - also events whose handlers (the built-in
// CTCP replies, the application's acknowledgements) send something themselves.
func stuckSender(e *Env) {
	g := G{e.S}
	s := startSession(e, g.Knobs(ClientOpts{Nick: "me", Flood: true, Track: g.Pct(40)}), func(l *simnet.Link) { l.ChunkMode = g.Intn(4) })
	down := false
	s.c.HandleFunc(client.DISCONNECTED, func(*client.Conn, *client.Line) { down = true })
	nReport := g.Range(33, 70)
	long := g.Pct(30)
	handed := 0
	s.c.HandleBG("REPORT", client.HandlerFunc(func(c *client.Conn, l *client.Line) {
		e.S.Count("fault.bg-handler-stuck-sending-to-a-connection-that-has-ended")
		simrt.Block("stuck-sender", "the link to go down", func() bool { return down })
		for i := 0; i < nReport; i++ {
			switch {
			case long:
				c.Privmsg("#log", strings.Repeat(fmt.Sprintf("report %d ", i), 80))
			case i%3 == 0:
				c.Notice("#log", fmt.Sprintf("report %d", i))
			case i%3 == 1:
				c.Action("#log", fmt.Sprintf("reports %d", i))
			default:
				c.Privmsg("#log", fmt.Sprintf("report %d", i))
			}
			handed++
		}
	}))
	var hellos []int
	acks := g.Bool()
	s.c.HandleFunc("HELLO", func(c *client.Conn, l *client.Line) {
		hellos = append(hellos, seqOf(l))
		if acks {
			c.Notice("u", "hello yourself")
		}
	})
	if !s.connect() {
		return
	}
	s.l.SendLine(":u!i@h.sim REPORT #c -1 :go")
	simrt.Settle(time.Duration(g.Intn(3)) * time.Second)
	if g.Bool() {
		s.l.CloseByServer()
	} else {
		e.S.Spawn("closer", func() { s.c.Close() })
	}
	if !simrt.BlockFor("stuck-sender", "DISCONNECTED", 10*time.Minute, func() bool { return down }) {
		e.Violation("delivery-stopped", "the connection ended and DISCONNECTED was not delivered\n%s", e.S.TaskDump())
		return
	}
	simrt.Settle(time.Duration(1+g.Intn(20)) * time.Second)
	s.ready = false
	if !s.connect() {
		return
	}
	n := g.Range(2, 6)
	for i := 0; i < n; i++ {
		s.l.SendLine(fmt.Sprintf(":u!i@h.sim HELLO #c %d :x", i))
		switch g.S.Choose(4) {
		case 0:
			s.l.SendLine(":u!i@h.sim PRIVMSG me :\x01VERSION\x01")
		case 1:
			s.l.SendLine(":u!i@h.sim PRIVMSG me :\x01PING 12345\x01")
		}
	}
	s.l.SendLine("PING :fin")
	fin := false
	s.onLine = func(ln string) {
		if ln == "PONG :fin" {
			fin = true
		}
	}
	e.Notef("a background handler stuck after handing over %d of %d lines to the ended connection; %d events on the next connection", handed, nReport, n)
	if !simrt.BlockFor("stuck-sender", "final PONG", time.Hour, func() bool { return fin }) {
		e.Violation("delivery-stopped", "a background handler is stuck sending to the connection that ended (%d of %d lines handed over); after the reconnect %d of %d later events reached the foreground handler and the final PING was not answered within an hour\n%s", handed, nReport, len(hellos), n, e.S.TaskDump())
		return
	}
	simrt.Settle(time.Second)
	e.Check()
	if len(hellos) != n {
		e.Violation("sibling-or-later-not-run", "%d of %d events of the second connection reached the foreground handler", len(hellos), n)
		return
	}
	s.c.Close()
}

// ---------------------------------------------------------------------------
// C04: handler-set histories against a multiset model with interval semantics

type hReg struct {
	id               int
	name             string // lower case
	bg               bool
	regStart, regEnd uint64
	remStart, remEnd uint64 // 0 = never removed
	rem              client.Remover
	removeIssued     bool
	sentinel         bool
	runs             map[int]int // seq -> invocations
	selfRemoveAt     int         // seq at which it removes itself (-1 never)
	addAt            int         // seq at which it registers a new handler (-1 never)
	removeOtherAt    int
}

func handlerHistory(e *Env) {
	g := G{e.S}
	names := []string{"foo", "bar", "baz"}[:g.Range(1, 3)]
	if g.Pct(30) {
		// an event whose built-in handler panics (a PING without its parameter;
		// the panic is the recovery function's business): the user's handlers for
		// the event are invoked all the same
		names = append(names, "ping")
		e.S.Count("probe.event-whose-built-in-handler-panics")
	}
	s := startSession(e, g.Knobs(ClientOpts{Nick: "me", Flood: true}), func(l *simnet.Link) { l.ChunkMode = g.Intn(4); l.Window = []int{0, 0, 0, 16, 64, 300}[g.Intn(6)] })
	var regs []*hReg
	type evt struct {
		seq     int
		name    string
		sent    uint64
		fgEnter uint64 // min enter stamp among fg invocations
		bgEnter uint64
		fgExit  uint64 // max exit among fg invocations
	}
	var evts []*evt
	nEvents := g.Range(1, 25)
	// in a quarter of the runs the connection is ended (by another task) while a
	// foreground handler of a chosen event is running; the handler then goes on
	// to register or remove handlers, with the teardown waiting for it
	endAt := -1
	if g.Pct(25) {
		endAt = g.Intn(nEvents)
	}
	ended, closeReturned, disconnected := false, false, false
	var register func(name string, bg bool, sentinel bool, by string) *hReg
	removeH := func(h *hReg) {
		if h.removeIssued || h.rem == nil {
			return
		}
		h.removeIssued = true
		h.remStart = e.S.Stamp()
		h.rem.Remove()
		h.remEnd = e.S.Stamp()
	}
	pickLive := func(name string, bg bool, not *hReg) *hReg {
		var c []*hReg
		for _, h := range regs {
			if h.name == name && h.bg == bg && !h.sentinel && !h.removeIssued && h.rem != nil && h != not {
				c = append(c, h)
			}
		}
		if len(c) == 0 {
			return nil
		}
		return c[g.S.Choose(len(c))]
	}
	register = func(name string, bg bool, sentinel bool, by string) *hReg {
		h := &hReg{id: len(regs), name: name, bg: bg, sentinel: sentinel, runs: map[int]int{}, selfRemoveAt: -1, addAt: -1, removeOtherAt: -1}
		regs = append(regs, h)
		if !sentinel && by != "handler" {
			if g.S.Choose(6) == 0 {
				h.selfRemoveAt = g.S.Choose(nEvents)
			}
			if g.S.Choose(6) == 0 {
				h.addAt = g.S.Choose(nEvents)
			}
			if g.S.Choose(6) == 0 {
				h.removeOtherAt = g.S.Choose(nEvents)
			}
		}
		fn := func(c *client.Conn, l *client.Line) {
			enter := e.S.Stamp()
			q := seqOf(l)
			h.runs[q]++
			if q >= 0 && q < len(evts) {
				ev := evts[q]
				if h.bg {
					if ev.bgEnter == 0 || enter < ev.bgEnter {
						ev.bgEnter = enter
					}
				} else {
					if ev.fgEnter == 0 || enter < ev.fgEnter {
						ev.fgEnter = enter
					}
				}
				if strings.ToLower(l.Cmd) != h.name {
					e.Violation("wrong-name", "handler %d registered for %q ran for event %d with Cmd %q", h.id, h.name, q, l.Cmd)
				}
			}
			if g.S.Choose(3) == 0 {
				simrt.Sleep(0)
			}
			if q >= 0 && q == endAt && !h.bg && !ended {
				ended = true
				e.S.Count("fault.connection-ended-under-a-registering-handler")
				how := g.S.Choose(2)
				e.S.Spawn("ender", func() {
					if how == 0 {
						s.c.Close()
					} else {
						s.l.CloseByServer()
					}
					closeReturned = true
				})
				simrt.Sleep(time.Duration(1+g.S.Choose(5)) * time.Millisecond)
				register(h.name, g.S.Choose(2) == 0, false, "handler")
				if o := pickLive(h.name, g.S.Choose(2) == 0, h); o != nil {
					removeH(o)
				}
			}
			if q >= 0 && q == h.selfRemoveAt {
				e.S.Count("probe.self-removal-inside-handler")
				removeH(h)
			}
			if q >= 0 && q == h.addAt {
				e.S.Count("probe.registration-inside-handler")
				register(h.name, g.S.Choose(2) == 0, false, "handler")
			}
			if q >= 0 && q == h.removeOtherAt {
				if o := pickLive(h.name, h.bg, h); o != nil {
					e.S.Count("probe.removal-of-sibling-inside-handler")
					removeH(o)
				}
			}
			if !h.bg && q >= 0 && q < len(evts) {
				x := e.S.Stamp()
				if x > evts[q].fgExit {
					evts[q].fgExit = x
				}
			}
		}
		regName := name
		switch g.S.Choose(3) {
		case 1:
			regName = strings.ToUpper(name)
		case 2:
			regName = strings.ToUpper(name[:1]) + name[1:]
		}
		h.regStart = e.S.Stamp()
		switch {
		case bg:
			h.rem = s.c.HandleBG(regName, client.HandlerFunc(fn))
		case g.S.Choose(2) == 0:
			h.rem = s.c.Handle(regName, client.HandlerFunc(fn))
		default:
			h.rem = s.c.HandleFunc(regName, fn)
		}
		h.regEnd = e.S.Stamp()
		return h
	}
	for _, nm := range names {
		register(nm, false, true, "main")
		register(nm, true, true, "main")
		for k := g.Range(0, 4); k > 0; k-- {
			register(nm, g.Bool(), false, "main")
		}
	}
	// a background handler that takes for ever over one event (it is still at it
	// when the run ends): background dispatch of every later event goes ahead
	histOver := false
	defer func() { histOver = true }()
	if g.Pct(20) {
		e.S.Count("probe.background-handler-still-running-while-later-events-arrive")
		parked := false
		s.c.HandleBG(names[0], client.HandlerFunc(func(*client.Conn, *client.Line) {
			if parked {
				return
			}
			parked = true
			simrt.Block("parked-bg", "the end of the run", func() bool { return histOver })
		}))
	}
	// several one-shot handlers of one name that all remove themselves during the
	// same event: they run side by side, so their removals meet in the handler
	// set; each Remove has returned before the next event is dispatched
	crowdAt, crowdName := map[int]bool{}, names[0]
	if g.Pct(40) && nEvents >= 2 {
		e.S.Count("probe.one-shot-handlers-removing-themselves-side-by-side")
		for j := g.Intn(3); j < nEvents-1 && len(crowdAt) < 4; j += 2 + g.Intn(4) {
			crowdAt[j] = true
			for k := g.Range(3, 8); k > 0; k-- {
				h := register(crowdName, false, false, "main")
				h.selfRemoveAt, h.addAt, h.removeOtherAt = j, -1, -1
			}
		}
	}
	// names without sentinels: their handler lists start empty and may become
	// empty again, so first registrations and last removals race for real
	free := []string{"qux", "zap"}[:g.Range(0, 2)]
	names = append(names, free...)
	isFree := map[string]bool{}
	for _, f := range free {
		isFree[f] = true
	}
	s.c.HandleFunc(client.DISCONNECTED, func(*client.Conn, *client.Line) { disconnected = true })
	// the welcome line raises CONNECTED from inside its built-in handler, i.e.
	// before the line's own foreground and background dispatch have begun: what a
	// CONNECTED handler registers or removes for "001" is in place by then and
	// must be honoured by that very line
	nested := g.Pct(40)
	var wRuns [4]int
	if nested {
		e.S.Count("probe.handlers-changed-between-a-line's-internal-and-user-dispatch")
		rmA := s.c.HandleFunc("001", func(*client.Conn, *client.Line) { wRuns[0]++ })
		s.c.HandleFunc("001", func(*client.Conn, *client.Line) { wRuns[1]++ })
		s.c.HandleFunc(client.CONNECTED, func(c *client.Conn, l *client.Line) {
			rmA.Remove()
			c.HandleFunc("001", func(*client.Conn, *client.Line) { wRuns[2]++ })
			c.HandleBG("001", client.HandlerFunc(func(*client.Conn, *client.Line) { wRuns[3]++ }))
		})
	}
	// the events the client raises itself are events like any other: each
	// invokes the foreground and the background handlers registered for it
	var own [4]int
	ownNames := [4]string{"REGISTER (foreground)", "REGISTER (background)", "CONNECTED (foreground)", "CONNECTED (background)"}
	ownEvents := g.Pct(50)
	if ownEvents {
		s.c.HandleFunc([]string{"REGISTER", "register", "Register"}[g.Intn(3)], func(*client.Conn, *client.Line) { own[0]++ })
		s.c.HandleBG([]string{"REGISTER", "register", "Register"}[g.Intn(3)], client.HandlerFunc(func(*client.Conn, *client.Line) { own[1]++ }))
		s.c.HandleFunc([]string{"CONNECTED", "connected"}[g.Intn(2)], func(*client.Conn, *client.Line) { own[2]++ })
		s.c.HandleBG([]string{"CONNECTED", "connected"}[g.Intn(2)], client.HandlerFunc(func(*client.Conn, *client.Line) { own[3]++ }))
	}
	if !s.connect() {
		return
	}
	if ownEvents {
		simrt.Settle(time.Second)
		e.Check()
		for k, n := range own {
			if n != 1 {
				e.Violation("not-run", "one handler is registered for %s: after Connect and the welcome it has run %d times, want 1 (runs: %v)", ownNames[k], n, own)
				return
			}
		}
	}
	if nested {
		simrt.Settle(time.Second)
		e.Check()
		if wRuns != [4]int{0, 1, 1, 1} {
			e.Violation("ran-after-removal-or-before-registration", "a CONNECTED handler (run by the welcome line's built-in handler, before that line reaches the user's handlers) removed foreground handler A for 001 and registered foreground handler C and background handler D for it; for the welcome line A ran %d times (want 0), the untouched B %d (want 1), C %d (want 1), D %d (want 1)", wRuns[0], wRuns[1], wRuns[2], wRuns[3])
			return
		}
	}
	// concurrent mutators
	nMut := g.W(2, 2, 1, 1)
	mutDone := 0
	stop := false
	for m := 0; m < nMut; m++ {
		m := m
		e.S.Spawn(fmt.Sprintf("mutator%d", m), func() {
			for k := 0; k < 12 && !stop; k++ {
				if g.S.Choose(3) != 0 {
					simrt.Sleep(time.Duration(g.S.Choose(4)) * time.Millisecond)
				}
				nm := names[g.S.Choose(len(names))]
				if g.S.Choose(2) == 0 {
					register(nm, g.S.Choose(2) == 0, false, "task")
				} else if o := pickLive(nm, g.S.Choose(2) == 0, nil); o != nil {
					removeH(o)
				}
			}
			mutDone++
		})
	}
	for i := 0; i < nEvents; i++ {
		nm := names[g.S.Choose(len(names))]
		if crowdAt[i] || (i > 0 && crowdAt[i-1]) {
			nm = crowdName
		}
		wireName := nm
		switch g.S.Choose(3) {
		case 1:
			wireName = strings.ToUpper(nm)
		case 2:
			wireName = strings.ToUpper(nm[:1]) + nm[1:]
		}
		ev := &evt{seq: i, name: nm}
		evts = append(evts, ev)
		ev.sent = e.S.Stamp()
		if nm == "ping" {
			s.l.SendLine(fmt.Sprintf("@seq=%d;hist=1 %s", i, wireName))
		} else {
			s.l.SendLine(fmt.Sprintf(":u!i@h.sim %s #c %d :x", wireName, i))
		}
		if crowdAt[i] {
			continue // the next event follows at once: it is waiting when the one-shot handlers return
		}
		switch g.S.Choose(3) {
		case 0:
			simrt.Sleep(time.Duration(g.S.Choose(5)) * time.Millisecond)
		case 1:
			simrt.Sleep(0)
		}
	}
	stop = true
	s.l.SendLine("PING :fin")
	fin := false
	s.onLine = func(ln string) {
		if ln == "PONG :fin" {
			fin = true
		}
	}
	if endAt >= 0 {
		// (the chosen event may have had no foreground handler: then nothing
		// ended the connection and the run is an ordinary one)
		simrt.BlockFor("history", "the end of the connection or of the events", time.Hour, func() bool { return ended || fin })
	}
	if ended {
		if !simrt.BlockFor("history", "teardown under a registering handler", time.Hour, func() bool { return ended && disconnected && closeReturned && mutDone == nMut }) {
			e.Violation("stuck", "the connection was ended while a foreground handler was running; the handler then registered/removed handlers: ended=%v DISCONNECTED delivered=%v ender returned=%v mutators done=%d/%d\n%s",
				ended, disconnected, closeReturned, mutDone, nMut, e.S.TaskDump())
			return
		}
		simrt.Settle(time.Minute)
		// lines after the end are legitimately discarded: only "never twice,
		// never under another name" is checked for this run - and that an event
		// which was dispatched at all was dispatched to both sets: the permanent
		// sentinels of its name either both ran or neither did, whenever the
		// connection went down
		for _, ev := range evts {
			e.Check()
			if !isFree[ev.name] && (ev.fgEnter != 0) != (ev.bgEnter != 0) {
				e.Violation("sentinel-missed", "event %d (%s) was dispatched while the connection was being ended: its permanently registered foreground sentinel ran=%v, its background sentinel ran=%v (an event invokes the handlers of both sets)",
					ev.seq, ev.name, ev.fgEnter != 0, ev.bgEnter != 0)
				return
			}
			for _, h := range regs {
				cnt := h.runs[ev.seq]
				if cnt > 1 {
					e.Violation("ran-twice", "handler %d (%s, %s) ran %d times for event %d", h.id, h.name, setName(h.bg), cnt, ev.seq)
					return
				}
				if h.name != ev.name && cnt != 0 {
					e.Violation("wrong-name", "handler %d registered under %q ran for event %d named %q", h.id, h.name, ev.seq, ev.name)
					return
				}
			}
		}
		return
	}
	if !simrt.BlockFor("history", "all events dispatched", time.Hour, func() bool { return fin && mutDone == nMut }) {
		e.Violation("stuck", "registering/removing handlers (also from inside handlers) stalled event delivery\n%s", e.S.TaskDump())
		return
	}
	simrt.Settle(time.Minute)
	e.Notef("%d names, %d events, %d handlers registered over the run, %d concurrent mutator tasks", len(names), nEvents, len(regs), nMut)
	// ---- oracle ----
	var prevFgExit uint64
	for _, ev := range evts {
		if !isFree[ev.name] && (ev.fgEnter == 0 || ev.bgEnter == 0) {
			e.Violation("sentinel-missed", "event %d (%s): the permanently registered sentinel handlers did not both run (fg seen=%v bg seen=%v)", ev.seq, ev.name, ev.fgEnter != 0, ev.bgEnter != 0)
			return
		}
		loFg := ev.sent
		if prevFgExit > loFg {
			loFg = prevFgExit
		}
		for _, h := range regs {
			cnt := h.runs[ev.seq]
			e.Check()
			if cnt > 1 {
				e.Violation("ran-twice", "handler %d (%s, %s) ran %d times for event %d", h.id, h.name, setName(h.bg), cnt, ev.seq)
				return
			}
			if h.name != ev.name {
				if cnt != 0 {
					e.Violation("wrong-name", "handler %d registered under %q ran for event %d named %q", h.id, h.name, ev.seq, ev.name)
					return
				}
				continue
			}
			lo, hi := loFg, ev.fgEnter
			if h.bg {
				lo, hi = ev.sent, ev.bgEnter
			}
			// hi == 0: no handler of that set ran for this event (possible only
			// for names without a sentinel): when the snapshot was taken is then
			// unknown, so only a handler that was never removed must have run
			must := h.regEnd < lo && (h.remStart == 0 || (hi != 0 && h.remStart > hi))
			mustNot := (h.remEnd != 0 && h.remEnd < lo) || (hi != 0 && h.regStart > hi)
			if must && cnt != 1 {
				e.Violation("not-run", "handler %d (%s, %s) was registered (call returned at event %d) before event %d could be dispatched (not before %d) and not removed until after its dispatch had started (%d), but ran %d times",
					h.id, h.name, setName(h.bg), h.regEnd, ev.seq, lo, hi, cnt)
				return
			}
			if mustNot && cnt != 0 {
				e.Violation("ran-after-removal-or-before-registration", "handler %d (%s, %s; registered %d..%d, removed %d..%d) ran for event %d whose %s dispatch lies within events %d..%d",
					h.id, h.name, setName(h.bg), h.regStart, h.regEnd, h.remStart, h.remEnd, ev.seq, setName(h.bg), lo, hi)
				return
			}
		}
		if ev.fgExit > prevFgExit {
			prevFgExit = ev.fgExit
		}
	}
	s.c.Close()
}

func setName(bg bool) string {
	if bg {
		return "background"
	}
	return "foreground"
}
