package worlds

import (
	"context"
	"fmt"
	"net"
	"reflect"
	"sort"
	"strings"
	"time"

	sasl "github.com/emersion/go-sasl"
	"github.com/fluffle/goirc/client"
	"github.com/fluffle/goirc/logging"

	"verifsim/simnet"
	"verifsim/simrt"
)

// World is a workload generator plus oracles; Run is the main task of a run.
type World struct {
	Name       string
	Run        func(e *Env)
	MaxSteps   int
	MaxSimTime time.Duration
}

var Worlds = map[string]*World{}

func register(w *World) { Worlds[w.Name] = w }

// Env is what a world's main task works with.
type Env struct {
	S    *simrt.Sim
	Prop string // the property this run decides
	Tier string
	Idx  int // run index within the batch
	Log  *CapLog

	Links     []*simnet.Link
	LinkPlan  func(l *simnet.Link)                   // applied to every new link (fault plan, chunking)
	OnDial    func(l *simnet.Link)                   // e.g. spawn the server task
	DialDeny  func() error                           // permanent veto, evaluated on the dialling task (e.g. by task name)
	DialErr   func(n int, addr string) error         // non-nil result makes the n-th dial fail
	DialWait  func(ctx context.Context, n int) error // may block (simulated) before the dial completes
	Dials     []string
	DialTasks []string // the task each dial was made on
	CtxDials  int

	Oblig int // obligations the property's oracle evaluated in this run
	Notes []string
}

// Check counts one evaluated obligation of the focus property.
func (e *Env) Check() { e.Oblig++ }

// Violation records a violation of the focus property and ends the run.
func (e *Env) Violation(clause, format string, args ...interface{}) {
	e.S.Fail(e.Prop+"."+clause, format, args...)
}

// Notef adds a line to the run's human-readable summary (kept for samples).
func (e *Env) Notef(format string, args ...interface{}) {
	if len(e.Notes) < 40 {
		e.Notes = append(e.Notes, fmt.Sprintf(format, args...))
	}
}

func (e *Env) dial(ctx context.Context, network, address string, ctxAware bool) (net.Conn, error) {
	n := len(e.Dials) + 1
	e.Dials = append(e.Dials, address)
	who := ""
	if t := e.S.Self(); t != nil {
		who = t.ID
	}
	e.DialTasks = append(e.DialTasks, who)
	if ctxAware {
		e.CtxDials++
	}
	e.S.Logf("dial #%d %s %s ctx=%v", n, network, address, ctxAware)
	if e.DialWait != nil {
		if err := e.DialWait(ctx, n); err != nil {
			e.S.Count("fault.dial-cancelled")
			return nil, err
		}
	}
	if e.DialDeny != nil {
		if err := e.DialDeny(); err != nil {
			e.S.Count("fault.dial-denied")
			return nil, err
		}
	}
	if e.DialErr != nil {
		if err := e.DialErr(n, address); err != nil {
			e.S.Count("fault.dial-error")
			return nil, err
		}
	}
	l := &simnet.Link{S: e.S, ID: len(e.Links) + 1, Addr: address}
	if e.LinkPlan != nil {
		e.LinkPlan(l)
	}
	e.Links = append(e.Links, l)
	if e.OnDial != nil {
		e.OnDial(l)
	}
	return &simnet.Conn{L: l}, nil
}

// ---------------------------------------------------------------------------
// capturing logger

type LogRec struct {
	Level string
	Text  string
	Seq   uint64
}

type CapLog struct {
	S    *simrt.Sim
	Recs []LogRec
	Keep bool
	// Slow makes the logger a scheduling point (and sometimes a short sleep on
	// the fake clock): the library logs while holding its locks
	Slow bool
	// Scan is called with every formatted record (C20).
	Scan func(level, text string)
}

func (c *CapLog) add(level, f string, a []interface{}) {
	txt := fmt.Sprintf(f, a...)
	if c.Scan != nil {
		c.Scan(level, txt)
		// "whatever logger is installed": one that encodes the arguments itself
		// (JSON, a collector) never calls their String methods - it sees what
		// is stored in them
		c.Scan(level, "format string: "+f)
		for i, x := range a {
			var b strings.Builder
			rawText(reflect.ValueOf(x), &b, 0)
			if b.Len() > 0 {
				c.Scan(level, fmt.Sprintf("argument %d as stored (%T): %s", i, x, b.String()))
			}
		}
	}
	if c.Keep {
		c.Recs = append(c.Recs, LogRec{level, txt, c.S.Seq()})
	}
	if c.S.Tracing() && level != "debug" {
		c.S.Logf("log[%s] %s", level, txt)
	}
	if c.Slow && c.S.Self() != nil {
		switch c.S.Choose(12) {
		case 0:
			simrt.Sleep(time.Millisecond)
		case 1, 2:
			simrt.Sleep(0)
		}
	}
}

// rawText collects the string and byte-slice contents reachable from v without
// going through any method of the value.
func rawText(v reflect.Value, b *strings.Builder, depth int) {
	if !v.IsValid() || depth > 6 {
		return
	}
	switch v.Kind() {
	case reflect.String:
		b.WriteString(v.String())
		b.WriteByte(' ')
	case reflect.Slice, reflect.Array:
		if v.Kind() == reflect.Slice && v.IsNil() {
			return
		}
		if v.Type().Elem().Kind() == reflect.Uint8 {
			bs := make([]byte, v.Len())
			for i := range bs {
				bs[i] = byte(v.Index(i).Uint())
			}
			b.Write(bs)
			b.WriteByte(' ')
			return
		}
		for i := 0; i < v.Len() && i < 64; i++ {
			rawText(v.Index(i), b, depth+1)
		}
	case reflect.Ptr, reflect.Interface:
		if !v.IsNil() {
			rawText(v.Elem(), b, depth+1)
		}
	case reflect.Struct:
		for i := 0; i < v.NumField(); i++ {
			rawText(v.Field(i), b, depth+1)
		}
	case reflect.Map:
		if v.Len() > 64 {
			return
		}
		for _, k := range v.MapKeys() {
			rawText(k, b, depth+1)
			rawText(v.MapIndex(k), b, depth+1)
		}
	}
}

func (c *CapLog) Debug(f string, a ...interface{}) { c.add("debug", f, a) }
func (c *CapLog) Info(f string, a ...interface{})  { c.add("info", f, a) }
func (c *CapLog) Warn(f string, a ...interface{})  { c.add("warn", f, a) }
func (c *CapLog) Error(f string, a ...interface{}) { c.add("error", f, a) }

// ---------------------------------------------------------------------------

// setupEnv installs the run's logger and dialer.
func setupEnv(e *Env) {
	e.Log = &CapLog{S: e.S}
	logging.SetLogger(e.Log)
	simnet.SetDial(e.dial)
}

// ---------------------------------------------------------------------------
// plan helpers (all draws come from the plan vector)

type G struct{ S *simrt.Sim }

func (g G) Intn(n int) int { return g.S.Plan(n) }
func (g G) Range(lo, hi int) int {
	if hi <= lo {
		return lo
	}
	return lo + g.S.Plan(hi-lo+1)
}
func (g G) Bool() bool              { return g.S.Plan(2) == 1 }
func (g G) Pct(p int) bool          { return g.S.PlanW(100-p, p) == 1 }
func (g G) W(w ...int) int          { return g.S.PlanW(w...) }
func (g G) Pick(xs []string) string { return xs[g.S.Plan(len(xs))] }

// Str draws a string of length lo..hi over the alphabet.
func (g G) Str(alpha string, lo, hi int) string {
	n := g.Range(lo, hi)
	b := make([]byte, n)
	for i := range b {
		b[i] = alpha[g.S.Plan(len(alpha))]
	}
	return string(b)
}

const (
	alnum   = "abcdefghijklmnopqrstuvwxyzABCDEFGHIJKLMNOPQRSTUVWXYZ0123456789"
	lower   = "abcdefghijklmnopqrstuvwxyz"
	nickSet = "abcdefghijklmnopqrstuvwxyzABCDEFGHIJKLMNOPQRSTUVWXYZ0123456789[]\\`_^{|}-"
)

// ---------------------------------------------------------------------------
// client construction

type ClientOpts struct {
	Nick, Ident, Name string
	Pass              string
	Flood             bool
	PingFreq          time.Duration
	Timeout           time.Duration // 0: library default
	Sasl              sasl.Client
	CapNeg            bool
	Caps              []string
	Track             bool
	CtxDialer         bool
	Direct            bool // no proxy configured: the library's own net.Dialer path
	Server            string
	SplitLen          int
	Recover           func(*client.Conn, *client.Line)
	NewNick           func(string) string
	Toggle            int // 1: state tracking is switched on and off again before the client is used
}

// Knobs varies the configuration fields a world's oracle does not depend on
// (and the world has left unset), so that correctness never silently leans on
// one configuration: the dial/keep-alive timeout, the split length, a SASL
// client and wanted capabilities that are never negotiated.
func (g G) Knobs(o ClientOpts) ClientOpts {
	if o.Timeout == 0 {
		// (-1: Config.Timeout set to 0, documented as "wait indefinitely")
		o.Timeout = []time.Duration{0, 0, 50 * time.Millisecond, time.Second, 15 * time.Second, 10 * time.Minute, -1}[g.Intn(7)]
	}
	if o.SplitLen == 0 {
		o.SplitLen = []int{0, 0, 0, 50, 200, 510, 2000}[g.Intn(7)]
	}
	if o.Sasl == nil && g.Pct(20) {
		o.Sasl = sasl.NewPlainClient("", "knob", "knob")
	}
	if !o.CtxDialer && !o.Direct && g.Pct(25) {
		o.Direct = true
	}
	if o.Caps == nil && g.Pct(20) {
		o.Caps = []string{"multi-prefix", "sasl"}[:g.Range(1, 2)]
	}
	if o.Toggle == 0 && g.Pct(20) {
		o.Toggle = 1
	}
	return o
}

func NewClient(o ClientOpts) *client.Conn {
	if o.Nick == "" {
		o.Nick = "me"
	}
	cfg := client.NewConfig(o.Nick, o.Ident, o.Name)
	cfg.Pass = o.Pass
	cfg.Flood = o.Flood
	cfg.PingFreq = o.PingFreq
	if o.Timeout > 0 {
		cfg.Timeout = o.Timeout
	} else if o.Timeout < 0 {
		cfg.Timeout = 0
	}
	cfg.Server = o.Server
	if cfg.Server == "" {
		cfg.Server = "irc.sim"
	}
	switch {
	case o.Direct:
		cfg.Proxy = ""
	case o.CtxDialer:
		cfg.Proxy = "simctx://proxy"
	default:
		cfg.Proxy = "sim://proxy"
	}
	if o.SplitLen != 0 {
		cfg.SplitLen = o.SplitLen
	}
	cfg.Sasl = o.Sasl
	cfg.EnableCapabilityNegotiation = o.CapNeg
	cfg.Capabilites = o.Caps
	if o.Recover != nil {
		cfg.Recover = o.Recover
	}
	if o.NewNick != nil {
		cfg.NewNick = o.NewNick
	}
	c := client.Client(cfg)
	if o.Toggle == 1 {
		// an application that tried tracking and switched it off again: the
		// client is then exactly what it was before
		c.EnableStateTracking()
		c.DisableStateTracking()
	}
	if o.Track {
		c.EnableStateTracking()
	}
	return c
}

// ---------------------------------------------------------------------------
// scripted-server helpers

// Registration reads the client's registration lines (until USER) and returns
// them without terminators.  ok is false if the client went away first.
func Registration(l *simnet.Link, limit time.Duration) (lines []string, ok bool) {
	for {
		ln, got := l.RecvLineFor(limit)
		if !got {
			return lines, false
		}
		ln = strings.TrimRight(ln, "\r\n")
		lines = append(lines, ln)
		if strings.HasPrefix(ln, "USER ") {
			return lines, true
		}
	}
}

// NickOf extracts the nick from registration lines.
func NickOf(lines []string) string {
	for _, l := range lines {
		if strings.HasPrefix(l, "NICK ") {
			return strings.TrimPrefix(l, "NICK ")
		}
	}
	return ""
}

func Welcome(l *simnet.Link, nick string) {
	l.SendLine(":irc.sim 001 " + nick + " :Welcome to the sim " + nick + "!ident@host.sim")
}

// sortedKeys returns the keys of a string-keyed map in order.
func sortedKeys[V any](m map[string]V) []string {
	ks := make([]string, 0, len(m))
	for k := range m {
		ks = append(ks, k)
	}
	sort.Strings(ks)
	return ks
}
