package worlds

import (
	"context"
	"errors"
	"fmt"
	"strings"
	"time"

	"github.com/fluffle/goirc/client"

	"verifsim/simnet"
	"verifsim/simrt"
)

// W-life: connect / fault / close / reconnect cycles.  Decides C06 and C07
// (C18 and C20 have their own worlds built from the same pieces).
func init() {
	register(&World{Name: "life", Run: lifeRun, MaxSteps: 600000, MaxSimTime: 100 * time.Hour})
}

const (
	causeClose1 = iota
	causeCloseN
	causeEOF
	causeReset
	causeCancel
	causeQuit
	causeCloseBG
	numCauses
)

var reconnNames = []string{"main task", "fg DISCONNECTED handler", "bg DISCONNECTED handler", "a task polling Connected()"}

var causeNames = []string{"Close", "Close-from-several-tasks", "server-EOF", "peer-reset", "context-cancel", "QUIT+server-EOF", "Close-from-a-background-handler"}

type lifeCycle struct {
	no                   int
	link                 *simnet.Link
	scripted             bool // the scripted cause has been started
	armed                bool
	welcomed             bool
	regLines             []string
	regOK                bool
	discSeen             bool
	cancel               context.CancelFunc
	closesReturnedAtDial int

	cause, cause2 int
	delayKind     int
	delayN        int
	inBacklog     int
	inSegments    int
	outBurst      int // lines a foreground handler sends when triggered
	bgBurst       int // lines a background handler sends
	userBurst     int // lines a user task sends
	slowHandler   time.Duration
	quiet         time.Duration
	midLine       bool
	mute          bool // the server stops reading for good once the cause has been started
	echoes        int  // lines that background handlers answer with one line each
	closers       int
	closeRet      int
	closeWant     int
	closeErrs     []error
	markerOK      bool
	dupConnect    bool // Connect is called again while this connection is up
	early         bool // the cause is started from the dialer, before Connect has returned
	bgBusy        time.Duration
	failFirst     []int // failing Connect attempts made before this connection: 0 no server, 1 dial error, 2 dial cancelled
	dupDone       bool
	dupErr        error
}

type lifeW struct {
	e *Env
	g G
	c *client.Conn

	track, flood, ctxDial bool
	relay                 bool // another goroutine fills the output queue while a dial is in progress
	serverGen             int  // counts the harness's own writes to Config().Server
	inConnect             int  // Connect calls of the harness in progress
	noServerProbe         bool // a task has emptied Config().Server for its attempt
	pingFreq              time.Duration
	nick                  string
	ncycles               int
	reconn                int // 0 main task, 1 fg DISCONNECTED handler, 2 bg DISCONNECTED handler
	sampleConnected       bool
	pollStop              bool
	tlsFail               bool // the next dial belongs to a Connect whose TLS handshake must fail
	tlsLinks              int
	chatty                bool // handlers call read-only API methods (Connected, Me, String, ...)

	cycles        []*lifeCycle
	plans         []*lifeCycle
	regEnter      int
	regExit       int
	connEv        int
	discCount     int
	connectsBegun int
	connects      int
	discOther     map[string]int
	closeCalls    int // user Close calls started
	closeReturned int // ... and returned
	bound         time.Duration
}

// causeBegun: something that legitimately ends connection cy has started: its
// scripted cause, an injected fault, the server hanging up, or any user Close
// call that had not returned when cy was dialled or was issued since (a Close
// issued while the previous connection was ending may take effect on this one).
func (w *lifeW) causeBegun(cy *lifeCycle) bool {
	return cy.scripted || cy.link.FaultFired || cy.link.Down() || w.closeCalls > cy.closesReturnedAtDial
}

// causeObserved: the client has been told (Close/cancel called, or a socket
// operation returned EOF or an error).  The liveness bound counts from here:
// an EOF the client has not read yet because it is legitimately working
// through rate-limited output is not a disconnect in progress.
func (w *lifeW) causeObserved(cy *lifeCycle) bool {
	return cy.scripted || cy.link.ClientSawEnd
}

// definitelyBegun is causeBegun without the lenient clause about user Close
// calls that may or may not land on this connection; liveness waits use it.
func (w *lifeW) definitelyBegun(cy *lifeCycle) bool {
	return cy.scripted || cy.link.FaultFired || cy.link.Down()
}

func (w *lifeW) curCycle() *lifeCycle {
	if len(w.cycles) == 0 {
		return nil
	}
	return w.cycles[len(w.cycles)-1]
}

// lifeNested: a REGISTER handler decides the session is unwanted and calls
// Close; a DISCONNECTED handler always reconnects.  The second Connect is thus
// issued from inside the first one (Connect -> REGISTER -> Close ->
// DISCONNECTED -> Connect).  Everything must return, each connection gets one
// REGISTER and the first one DISCONNECTED, and the second connection is usable.
func lifeNested(e *Env, g G) {
	track, flood := g.Bool(), g.Bool()
	e.S.Count("fault.close-from-register-handler-with-reconnecting-disconnected-handler")
	e.Notef("nested reconnect: track=%v flood-protection=%v", track, !flood)
	var links []*simnet.Link
	e.LinkPlan = func(l *simnet.Link) { l.ChunkMode = g.Intn(4) }
	regs2 := []string{}
	e.OnDial = func(l *simnet.Link) {
		links = append(links, l)
		no := len(links)
		e.S.Spawn(fmt.Sprintf("server%d", no), func() {
			reg, ok := Registration(l, time.Hour)
			if no == 2 {
				regs2 = reg
			}
			if !ok {
				return
			}
			Welcome(l, "nest")
			for {
				ln, ok := l.RecvLine()
				if !ok {
					return
				}
				if strings.HasPrefix(ln, "PING") {
					continue
				}
			}
		})
	}
	c := NewClient(g.Knobs(ClientOpts{Nick: "nest", Ident: "sim", Name: "Sim User", Flood: flood, Track: track}))
	regN, discN := 0, 0
	closedOnce, reconnectedOnce := false, false
	var closeErr, connErr2 error
	c.HandleFunc(client.REGISTER, func(c *client.Conn, l *client.Line) {
		regN++
		if !closedOnce {
			closedOnce = true
			closeErr = c.Close()
		}
	})
	c.HandleFunc(client.DISCONNECTED, func(c *client.Conn, l *client.Line) {
		discN++
		if !reconnectedOnce {
			reconnectedOnce = true
			connErr2 = c.Connect()
		}
	})
	returned := false
	var connErr1 error
	e.S.Spawn("connector", func() {
		connErr1 = c.Connect()
		returned = true
	})
	if !simrt.BlockFor("life.nested", "the outer Connect to return", time.Hour, func() bool { return returned }) {
		e.Violation("nested-reconnect", "a REGISTER handler called Close and a DISCONNECTED handler reconnected: the outer Connect did not return (REGISTER ran %d times, DISCONNECTED %d times)\n%s", regN, discN, e.S.TaskDump())
		return
	}
	simrt.Settle(30 * time.Second)
	e.Check()
	if connErr1 != nil || connErr2 != nil || closeErr != nil {
		e.Violation("nested-reconnect", "outer Connect returned %v, Close in the REGISTER handler %v, Connect in the DISCONNECTED handler %v", connErr1, closeErr, connErr2)
		return
	}
	if regN != 2 || discN != 1 || len(links) != 2 {
		e.Violation("nested-reconnect", "two connections were established and the first was closed: REGISTER ran %d times (want 2), DISCONNECTED %d times (want 1), %d dials", regN, discN, len(links))
		return
	}
	if !c.Connected() {
		e.Violation("nested-reconnect", "Connected() is false although the second connection is up")
		return
	}
	if len(regs2) > 0 && regs2[0] == "CAP LS" {
		regs2 = regs2[1:] // the SASL knob turns negotiation on
	}
	if len(regs2) != 2 || regs2[0] != "NICK nest" || !strings.HasPrefix(regs2[1], "USER ") {
		e.Violation("nested-reconnect", "the second connection opened with %q, want NICK nest and USER", regs2)
		return
	}
	links[1].SendLine("PING :nested")
	simrt.Settle(30 * time.Second)
	done := false
	e.S.Spawn("final-closer", func() { c.Close(); done = true })
	if !simrt.BlockFor("life.nested", "the final Close", 10*time.Minute, func() bool { return done && discN == 2 }) {
		e.Violation("nested-reconnect", "the final Close of the second connection did not complete: returned=%v DISCONNECTED=%d\n%s", done, discN, e.S.TaskDump())
	}
}

// lifeRace: two tasks call Connect on a disconnected client at the same time
// (a DISCONNECTED handler and a watchdog both reconnecting) and the dial takes
// a while.  Exactly one of them establishes a connection, the other is
// refused; REGISTER fires once; the connection then ends with one DISCONNECTED.
func lifeRace(e *Env, g G) {
	direct := g.Bool()
	track := g.Bool()
	e.S.Count("fault.two-connects-overlap-during-a-slow-dial")
	e.Notef("overlapping Connects: direct-dial=%v track=%v", direct, track)
	var links []*simnet.Link
	e.LinkPlan = func(l *simnet.Link) { l.ChunkMode = g.Intn(4) }
	dialDelay := time.Duration(g.Range(0, 50)) * 10 * time.Millisecond
	e.DialWait = func(ctx context.Context, n int) error {
		for i := e.S.Choose(30); i > 0; i-- {
			simrt.Sleep(0)
		}
		simrt.Sleep(dialDelay)
		return nil
	}
	e.OnDial = func(l *simnet.Link) {
		links = append(links, l)
		no := len(links)
		e.S.Spawn(fmt.Sprintf("server%d", no), func() {
			if _, ok := Registration(l, time.Hour); !ok {
				return
			}
			Welcome(l, "race")
			for {
				if _, ok := l.RecvLine(); !ok {
					return
				}
			}
		})
	}
	c := NewClient(ClientOpts{Nick: "race", Ident: "sim", Name: "Sim User", Flood: true, Track: track, Direct: direct, CtxDialer: !direct && g.Bool()})
	regN, discN := 0, 0
	c.HandleFunc(client.REGISTER, func(*client.Conn, *client.Line) { regN++ })
	c.HandleFunc(client.DISCONNECTED, func(*client.Conn, *client.Line) { discN++ })
	n := g.Range(2, 3)
	errs := make([]error, n)
	done := 0
	for i := 0; i < n; i++ {
		i := i
		e.S.Spawn(fmt.Sprintf("connector%d", i), func() {
			for k := e.S.Choose(20); k > 0; k-- {
				simrt.Sleep(0)
			}
			errs[i] = c.Connect()
			done++
		})
	}
	if !simrt.BlockFor("life.race", "every Connect call to return", time.Hour, func() bool { return done == n }) {
		e.Violation("overlapping-connects", "%d Connect calls were issued at once on a disconnected client; %d returned\n%s", n, done, e.S.TaskDump())
		return
	}
	simrt.Settle(10 * time.Second)
	ok := 0
	for _, err := range errs {
		if err == nil {
			ok++
		}
	}
	e.Check()
	if ok != 1 || regN != 1 || len(links) != 1 {
		e.Violation("overlapping-connects", "%d Connect calls were issued at once on a disconnected client: %d returned nil (want exactly one, the others are refused as already connected), REGISTER fired %d times, %d connections were dialled through: errors %v", n, ok, regN, len(links), errs)
		return
	}
	if !c.Connected() {
		e.Violation("overlapping-connects", "Connected() is false although one Connect succeeded and nothing ended the connection")
		return
	}
	links[0].CloseByServer()
	if !simrt.BlockFor("life.race", "DISCONNECTED after the server hung up", 10*time.Minute, func() bool { return discN >= 1 }) {
		e.Violation("disconnect-not-completed", "after overlapping Connects (one succeeded) the server hung up: no DISCONNECTED within 10 simulated minutes\n%s", e.S.TaskDump())
		return
	}
	closed := false
	e.S.Spawn("final-closer", func() { c.Close(); closed = true })
	if !simrt.BlockFor("life.race", "Close to return", 10*time.Minute, func() bool { return closed }) {
		e.Violation("close-did-not-return", "Close after the connection had ended did not return\n%s", e.S.TaskDump())
		return
	}
	simrt.Settle(5 * time.Second)
	if discN != 1 {
		e.Violation("disconnected-once", "one connection was established and ended: DISCONNECTED fired %d times", discN)
	}
}

func lifeRun(e *Env) {
	g := G{e.S}
	if g.Pct(6) {
		lifeNested(e, g)
		return
	}
	if g.Pct(6) {
		lifeRace(e, g)
		return
	}
	w := &lifeW{e: e, g: g, discOther: map[string]int{}}
	c07 := e.Prop == "C07"
	w.track = g.Bool()
	w.flood = g.Pct(60)
	w.ctxDial = g.Bool()
	w.relay = g.Pct(12)
	w.pingFreq = []time.Duration{0, 0, 3 * time.Minute, 7 * time.Second, -time.Second}[g.Intn(5)]
	w.nick = "me" + g.Str(lower, 1, 3)
	if c07 {
		w.ncycles = 1 + g.W(3, 4, 2, 1) // 1..4
		w.reconn = g.W(2, 2, 1, 1)
	} else {
		w.ncycles = 1 + g.W(5, 3, 1)
		w.reconn = g.W(3, 1, 1, 1)
	}
	w.sampleConnected = g.Pct(70)
	w.bound = 120 * time.Second
	e.Log.Slow = g.Pct(30)
	w.chatty = g.Pct(50)

	for i := 0; i < w.ncycles; i++ {
		cy := &lifeCycle{no: i + 1}
		cy.cause = g.W(3, 2, 3, 2, 2, 1, 1)
		cy.cause2 = -1
		if g.Pct(35) {
			cy.cause2 = g.Intn(numCauses)
		}
		cy.closers = 1
		if cy.cause == causeCloseN || cy.cause2 == causeCloseN {
			cy.closers = g.Range(2, 4)
		}
		cy.delayKind = g.W(3, 3, 2)
		cy.delayN = g.Range(1, 300)
		if c07 {
			cy.inBacklog = []int{0, 0, 3, 20, 40, 70, 120, 300, 600}[g.Intn(9)]
			cy.outBurst = []int{0, 0, 2, 20, 40, 70, 150, 400}[g.Intn(8)]
			cy.bgBurst = []int{0, 0, 0, 5, 50}[g.Intn(5)]
			cy.userBurst = []int{0, 0, 0, 5, 80}[g.Intn(5)]
		} else {
			cy.inBacklog = []int{0, 0, 1, 5, 20, 40, 120}[g.Intn(7)]
			// (the larger bursts fill the output queue: the foreground handler, and
			// with it the event loop, is then blocked in a send when the cause
			// arrives, with flood protection on in the middle of a flood delay)
			cy.outBurst = []int{0, 0, 1, 5, 20, 40, 70, 150}[g.Intn(8)]
		}
		cy.inSegments = g.Range(1, 4)
		if g.Pct(30) {
			cy.slowHandler = time.Duration(g.Range(1, 3000)) * time.Millisecond
		}
		cy.quiet = []time.Duration{0, 0, time.Second, 30 * time.Second, 4 * time.Minute}[g.Intn(5)]
		if g.Pct(15) {
			// a background handler that is still busy long after the connection
			// has gone: background handlers never hold up the connection
			cy.bgBusy = time.Duration(g.Range(5, 90)) * time.Minute
		}
		cy.midLine = g.Pct(20)
		// a peer that has stopped reading: whatever the client still writes stays
		// in a full window, and only the client's own teardown can free that write
		// (not together with causes that need the peer or the event loop: QUIT ends
		// by the server reading it, and the background handler's Close is started
		// by a line that a blocked event loop never gets to)
		// (nor with a half-close: a peer that has stopped reading and then closes
		// its socket resets the connection - the client's writes fail -, which is
		// the reset cause; simnet's server-side close is an EOF with the other
		// direction still open)
		viaAPI := func(c int) bool {
			return c == -1 || c == causeClose1 || c == causeCloseN || c == causeCancel || c == causeReset
		}
		cy.mute = g.Pct(15) && viaAPI(cy.cause) && viaAPI(cy.cause2)
		// many background handlers that each answer one line: when the peer
		// reads slowly or not at all they are all in the middle of sending when
		// the connection ends, more of them than the output queue has room for
		if c07 && (g.Pct(12) || (cy.mute && g.Pct(50))) {
			cy.echoes = []int{40, 70, 130}[g.Intn(3)]
		}
		// the cause may begin the moment the dial completes, i.e. while Connect
		// is still starting goroutines / dispatching REGISTER (a Close that early
		// would legitimately be refused as "not connected", so only the causes
		// that do not go through the client's API start early)
		cy.early = g.Pct(12) && (cy.cause == causeCancel || cy.cause == causeEOF || cy.cause == causeReset)
		if e.Prop == "C07" {
			// a redundant Connect on the live connection (refused) must not
			// change how the connection ends later
			cy.dupConnect = g.Pct(20)
		}
		if e.Prop == "C06" {
			cy.dupConnect = g.Pct(35)
			for k := g.W(5, 3, 1); k > 0 && w.reconn != 3; k-- {
				cy.failFirst = append(cy.failFirst, g.Intn(4))
			}
		}
		w.plans = append(w.plans, cy)
	}

	e.LinkPlan = func(l *simnet.Link) {
		l.ChunkMode = g.Intn(4)
		if g.Pct(25) {
			l.Window = []int{64, 512, 4096}[g.Intn(3)]
		}
		l.CloseErr = g.Pct(25)
		// the k-th socket operation fails; the range of k follows how finely the
		// stream is cut so that late operations are reached too
		maxReads := []int{12, 40, 700, 200}[l.ChunkMode]
		switch g.W(6, 1, 1, 1) {
		case 1:
			l.ReadErrAtOp = g.Range(1, maxReads)
		case 2:
			l.EOFAtOp = g.Range(1, maxReads)
		case 3:
			l.WriteErrAtOp = g.Range(1, 14)
			if g.Pct(20) {
				l.WriteErrAtOp = g.Range(1, 120)
			}
			l.ShortWrite = g.Bool()
		}
	}
	e.OnDial = func(l *simnet.Link) {
		if w.tlsFail {
			// a Connect attempt with SSL on and no TLS server behind the socket:
			// the handshake fails; this link is not a connection
			w.tlsLinks++
			l.CloseByServer()
			return
		}
		var cy *lifeCycle
		if l.ID-w.tlsLinks <= len(w.plans) && l.ID-w.tlsLinks >= 1 {
			cy = w.plans[l.ID-w.tlsLinks-1]
		} else {
			cy = &lifeCycle{no: l.ID - w.tlsLinks, cause: causeEOF, cause2: -1, closers: 1}
		}
		cy.link = l
		cy.closesReturnedAtDial = w.closeReturned
		w.cycles = append(w.cycles, cy)
		e.S.Spawn(fmt.Sprintf("server%d", l.ID), func() { w.server(cy) })
		if cy.early && (cy.cause != causeCancel || cy.cancel != nil) {
			e.S.Count("fault.cause-while-connecting")
			cy.armed = true
			w.fire(cy, cy.cause, "early")
		} else {
			cy.early = false
		}
	}

	// a Connect issued by a dup-connect task must never produce a connection:
	// if the connection it meant to disturb has just ended, its dial fails
	e.DialDeny = func() error {
		if t := e.S.Self(); t != nil && strings.HasPrefix(t.ID, "dup-connect") {
			return errors.New("sim: connection refused")
		}
		return nil
	}
	w.c = NewClient(g.Knobs(ClientOpts{Nick: w.nick, Ident: "sim", Name: "Sim User", Flood: w.flood, PingFreq: w.pingFreq, Track: w.track, CtxDialer: w.ctxDial}))
	w.install()
	e.Notef("cycles=%d reconnect-from=%s track=%v flood-protection=%v ping=%v ctx-dialer=%v", w.ncycles,
		reconnNames[w.reconn], w.track, !w.flood, w.pingFreq, w.ctxDial)
	for _, p := range w.plans {
		c2 := "-"
		if p.cause2 >= 0 {
			c2 = causeNames[p.cause2]
		}
		e.Notef("cycle %d: cause=%s also=%s in-backlog=%d out-burst(fg handler)=%d bg=%d user=%d slow-handler=%v quiet=%v", p.no,
			causeNames[p.cause], c2, p.inBacklog, p.outBurst, p.bgBurst, p.userBurst, p.slowHandler, p.quiet)
	}

	// Close on a client that never connected does nothing.
	if e.Prop == "C06" {
		if err := w.c.Close(); err != nil {
			e.Violation("close-unconnected", "Close on a never-connected client returned %v", err)
		}
		e.Check()
	}

	w.connect()
	if w.reconn == 3 {
		// a user task that does not wait for DISCONNECTED: it reconnects as soon
		// as Connected() reports false, i.e. possibly while the old connection is
		// still being torn down (Connect then has to wait for the teardown)
		e.S.Spawn("reconnect-poller", func() {
			for !w.pollStop {
				// sleep until something has begun to end the current connection
				// (harness knowledge, only to keep the polling loop short) ...
				simrt.Block("reconnect-poller", "a disconnect cause to begin", func() bool {
					if w.pollStop {
						return true
					}
					n := w.connects
					return n >= 1 && n < w.ncycles && w.connectsBegun == n && len(w.cycles) >= n && w.causeBegun(w.cycles[n-1])
				})
				// ... then poll Connected() as an application would
				for k := 0; k < 4000 && !w.pollStop; k++ {
					n := w.connects
					if n >= 1 && n < w.ncycles && w.connectsBegun == n && !w.c.Connected() {
						if w.connects == n && w.connectsBegun == n && !w.pollStop {
							e.S.Count("probe.reconnect-while-teardown-may-be-in-progress")
							w.connect()
						}
						break
					}
					switch {
					case k < 60:
						simrt.Sleep(time.Duration(e.S.Choose(3)) * time.Millisecond)
					case k < 200:
						simrt.Sleep(50 * time.Millisecond)
					default:
						simrt.Sleep(time.Second)
					}
				}
			}
		})
	}
	for i := 0; i < w.ncycles; i++ {
		w.runCycle(i)
		if e.S.Failed() {
			return
		}
	}
	w.pollStop = true
	w.finish()
}

func (w *lifeW) install() {
	e, c := w.e, w.c
	c.HandleFunc(client.REGISTER, func(c *client.Conn, l *client.Line) {
		w.regEnter++
		cy := w.curCycle()
		if w.sampleConnected && e.Prop == "C06" && cy != nil {
			v := c.Connected()
			if !v && !w.causeBegun(cy) {
				e.Violation("connected-in-register", "Connected() is false inside a REGISTER handler although no disconnect has begun (connection %d)", cy.no)
			}
			e.Check()
		}
		w.regExit++
	})
	c.HandleFunc(client.CONNECTED, func(c *client.Conn, l *client.Line) {
		w.connEv++
		cy := w.curCycle()
		if w.sampleConnected && e.Prop == "C06" && cy != nil && w.g.S.Choose(2) == 0 {
			v := c.Connected()
			if !v && !w.causeBegun(cy) {
				e.Violation("connected-in-connected", "Connected() is false inside a CONNECTED handler although no disconnect has begun (connection %d)", cy.no)
			}
			e.Check()
		}
	})
	onDisc := func(kind string, reconnect bool) func(*client.Conn, *client.Line) {
		return func(c *client.Conn, l *client.Line) {
			var cy *lifeCycle
			if kind == "fg1" {
				w.discCount++
				n := w.discCount
				e.S.Logf("DISCONNECTED #%d delivered", n)
				if n > len(w.cycles) {
					e.Violation("extra-disconnected", "DISCONNECTED delivered %d times but only %d connections were ever established", n, len(w.cycles))
					return
				}
				cy = w.cycles[n-1]
				cy.discSeen = true
				if !cy.scripted && !cy.link.FaultFired && !cy.link.Down() && w.causeBegun(cy) {
					e.S.Count("probe.user-close-landed-on-next-connection")
				}
				if !w.causeBegun(cy) && e.Prop == "C07" {
					e.Violation("torn-down-without-cause", "connection %d was torn down (DISCONNECTED delivered) although nothing ended it: no Close, fault, EOF or cancel had begun for it\n%s", cy.no, e.S.TaskDump())
				}
			} else {
				// fg2 and bg invocations may run before fg1 has counted the event
				w.discOther[kind]++
				n := w.discOther[kind]
				simrt.BlockFor("life.disc", "the first DISCONNECTED handler to record the event", time.Hour, func() bool { return w.discCount >= n })
				if w.discCount < n || n > len(w.cycles) {
					return
				}
				cy = w.cycles[n-1]
			}
			if w.sampleConnected && e.Prop == "C06" {
				begun := w.connectsBegun
				v := c.Connected()
				if v && w.connectsBegun == begun && begun <= cy.no {
					e.Violation("connected-in-disconnected", "Connected() is true inside a DISCONNECTED handler (connection %d, no new Connect issued)", cy.no)
				}
				e.Check()
			}
			if reconnect && cy.no < w.ncycles {
				// the link may drop while Connect is still dispatching REGISTER:
				// a user would wait for that Connect to return before reconnecting
				simrt.BlockFor("life.reconnect", "the previous Connect call to return", time.Hour, func() bool { return w.connects >= cy.no })
				if w.connects == cy.no && w.connectsBegun == cy.no {
					w.connect()
				}
			}
		}
	}
	c.HandleFunc(client.DISCONNECTED, onDisc("fg1", w.reconn == 1))
	c.HandleFunc(client.DISCONNECTED, onDisc("fg2", false))
	c.HandleBG(client.DISCONNECTED, client.HandlerFunc(onDisc("bg", w.reconn == 2)))

	c.HandleFunc(client.PRIVMSG, func(c *client.Conn, l *client.Line) {
		cy := w.curCycle()
		if cy == nil {
			return
		}
		if strings.HasPrefix(l.Text(), "burst") {
			for i := 0; i < cy.outBurst; i++ {
				c.Privmsg("#life", fmt.Sprintf("fg out %d.%d", cy.no, i))
			}
		}
	})
	c.HandleBG(client.PRIVMSG, client.HandlerFunc(func(c *client.Conn, l *client.Line) {
		cy := w.curCycle()
		if cy == nil {
			return
		}
		var no int
		if _, err := fmt.Sscanf(l.Text(), "!close %d", &no); err == nil && no >= 1 && no <= len(w.cycles) {
			// a bot command handled in the background ends the connection
			cy := w.cycles[no-1]
			if cy.discSeen {
				return
			}
			cy.scripted = true
			e.S.Logf("cause: Close() from a background handler on connection %d", cy.no)
			w.closeCalls++
			cy.closersStarted()
			err := c.Close()
			w.closeReturned++
			cy.closeErrs = append(cy.closeErrs, err)
			cy.closeRet++
			return
		}
		if strings.HasPrefix(l.Text(), "echo") {
			c.Privmsg("#life", "reply to "+l.Text())
			return
		}
		if strings.HasPrefix(l.Text(), "busy") {
			e.S.Count("probe.background-handler-busy-across-the-disconnect")
			simrt.Sleep(cy.bgBusy)
			return
		}
		if strings.HasPrefix(l.Text(), "burst") {
			for i := 0; i < cy.bgBurst && !cy.discSeen && !w.causeBegun(cy); i++ {
				c.Privmsg("#life", fmt.Sprintf("bg out %d.%d", cy.no, i))
			}
		}
	}))
	c.HandleFunc(client.NOTICE, func(c *client.Conn, l *client.Line) {
		if w.chatty {
			// what an ordinary bot does inside handlers
			switch e.S.Choose(6) {
			case 0:
				_ = c.Connected()
			case 1:
				_ = c.Me()
			case 2:
				_ = c.String()
			case 3:
				_ = c.HasCapability("x") || c.SupportsCapability("y")
			case 4:
				if st := c.StateTracker(); st != nil {
					_ = st.GetNick("other")
				}
			}
		}
		cy := w.curCycle()
		if cy != nil && cy.slowHandler > 0 && strings.HasPrefix(l.Text(), "fill 0") {
			simrt.Sleep(cy.slowHandler)
		}
	})
}

// connect issues Connect and checks what C06 says about its return.
func (w *lifeW) connect() {
	e := w.e
	if next := w.connectsBegun; next < len(w.plans) {
		for _, kind := range w.plans[next].failFirst {
			w.failingConnect(kind)
		}
	}
	w.connectsBegun++
	n := w.connectsBegun
	ctx, cancel := context.WithCancel(context.Background())
	if n <= len(w.plans) {
		w.plans[n-1].cancel = cancel
	}
	regBefore := w.regExit
	var err error
	if w.relay && e.DialWait == nil {
		// a busy relay that does not wait for the connection to be up: while the
		// dial is in progress another goroutine hands over more lines than the
		// output queue holds (whatever becomes of a line handed over while there
		// is no connection is outside every claim; the connection's own life is not)
		e.S.Count("fault.output-queue-filled-during-the-dial")
		e.DialWait = func(c context.Context, k int) error {
			handed := 0
			e.S.Spawn(fmt.Sprintf("relay%d", n), func() {
				for i := 0; i < 40; i++ {
					w.c.Raw(fmt.Sprintf("PRIVMSG #relay :relayed traffic %d.%d", n, i))
					handed++
				}
			})
			simrt.BlockFor("life.dial", "the relay to fill the output queue", time.Second, func() bool { return handed >= 32 })
			return nil
		}
		defer func() { e.DialWait = nil }()
	}
	// (not while another task's "no server configured" attempt has the field
	// emptied: configuring and connecting are the application's to keep apart)
	simrt.Block("life.connect", "another task's attempt without a server to finish", func() bool { return !w.noServerProbe })
	w.inConnect++
	if w.g.S.Choose(2) == 0 {
		err = w.c.ConnectContext(ctx)
	} else {
		w.serverGen++
		w.c.Config().Server = "irc.sim"
		err = w.c.ConnectToContext(ctx, "irc.sim")
	}
	w.inConnect--
	if err != nil {
		e.Violation("connect-failed", "Connect #%d failed although the dialer succeeded: %v", n, err)
		return
	}
	w.connects++
	if e.Prop == "C06" {
		if w.regExit != regBefore+1 || w.regEnter != w.regExit {
			e.Violation("register-once", "Connect #%d returned nil but REGISTER handlers ran %d time(s) to completion (entered %d) during it, want exactly 1",
				n, w.regExit-regBefore, w.regEnter-regBefore)
		}
		e.Check()
	}
}

// failingConnect makes one Connect attempt that must fail, fire no event and
// leave the client unconnected.
func (w *lifeW) failingConnect(kind int) {
	e := w.e
	reg, disc, dials := w.regEnter, w.discCount, len(e.Dials)
	var err error
	switch kind {
	case 0:
		if w.inConnect > 0 || w.noServerProbe {
			// another task's Connect is in flight: emptying the field under it is
			// the application's own race (that call may read the empty field after
			// its check, complete it to ":6667" and store that), so not now
			e.S.Count("probe.no-server-attempt-skipped-while-another-connect-is-in-flight")
			return
		}
		old := w.c.Config().Server
		w.serverGen++
		gen := w.serverGen
		w.noServerProbe = true
		w.c.Config().Server = ""
		w.inConnect++
		err = w.c.Connect()
		w.inConnect--
		overlapped := w.serverGen != gen
		w.serverGen++
		w.c.Config().Server = old
		w.noServerProbe = false
		if overlapped {
			// another task of the harness wrote Config().Server while this call was
			// in progress (its own Connect to "irc.sim", or a probe like this one):
			// what the library saw was not "no server configured" any more - the
			// application's race, not the library's - so this attempt proves nothing
			e.S.Count("probe.no-server-attempt-overlapped-by-another-connect")
			return
		}
		// (only dials made on this task: another task's redundant Connect may be
		// dialling at the same time, and may even have read the emptied field)
		self := ""
		if t := e.S.Self(); t != nil {
			self = t.ID
		}
		for k := dials; k < len(e.Dials); k++ {
			if e.DialTasks[k] == self {
				e.Violation("connect-refused", "Connect with no server configured dialled %q", e.Dials[k])
				break
			}
		}
		e.S.Count("fault.connect-without-server")
	case 1:
		e.DialErr = func(n int, addr string) error { return errors.New("sim: connection refused") }
		w.inConnect++
		err = w.c.Connect()
		w.inConnect--
		e.DialErr = nil
	case 2:
		ctx, cancel := context.WithCancel(context.Background())
		waiting := false
		e.DialWait = func(c context.Context, n int) error {
			waiting = true
			simrt.Block("dial", "dial in progress (until the context is cancelled)", func() bool { return c.Err() != nil })
			return c.Err()
		}
		if !w.ctxDial {
			// a dialer without context support cannot be interrupted: it fails by itself
			e.DialWait = func(c context.Context, n int) error {
				simrt.Sleep(30 * time.Second)
				return errors.New("sim: i/o timeout")
			}
			cancel()
		} else {
			e.S.Spawn(fmt.Sprintf("dial-canceller%d", len(e.Dials)), func() {
				simrt.Block("dial-canceller", "dial to start", func() bool { return waiting })
				simrt.Sleep(time.Duration(w.g.S.Choose(5)) * time.Second)
				cancel()
			})
		}
		w.inConnect++
		err = w.c.ConnectContext(ctx)
		w.inConnect--
		e.DialWait = nil
		cancel()
	case 3:
		w.c.Config().SSL = true
		w.tlsFail = true
		w.inConnect++
		err = w.c.Connect()
		w.inConnect--
		w.tlsFail = false
		w.c.Config().SSL = false
		e.S.Count("fault.tls-handshake-fails")
	}
	if err == nil {
		e.Violation("connect-refused", "a Connect attempt that cannot succeed (%s) returned nil", []string{"no server configured", "dial error", "dial cancelled/timed out", "TLS handshake fails"}[kind])
	}
	simrt.Settle(time.Second)
	if w.regEnter != reg || w.discCount != disc {
		e.Violation("connect-refused", "a failed Connect (%v) fired events: REGISTER %d->%d DISCONNECTED %d->%d", err, reg, w.regEnter, disc, w.discCount)
	}
	if w.c.Connected() {
		e.Violation("connect-refused", "Connected() is true after a failed Connect (%v)", err)
	}
	e.Check()
}

// dupConnect calls Connect while connection cy is up: it must be refused, fire
// nothing, and leave the connection working.
func (w *lifeW) dupConnect(cy *lifeCycle) {
	e, l := w.e, cy.link
	// REGISTER of the establishing Connect runs concurrently with the event
	// loop: let that Connect return first so its events are not miscounted
	if !simrt.BlockFor("life.server", "the establishing Connect to return", time.Hour, func() bool { return w.connects >= cy.no || w.causeBegun(cy) }) || w.causeBegun(cy) {
		return
	}
	reg, disc := w.regEnter, w.discCount
	e.S.Count("fault.connect-while-connected")
	e.S.Spawn(fmt.Sprintf("dup-connect%d", cy.no), func() {
		e.S.Logf("Connect called while connection %d is up", cy.no)
		w.inConnect++
		cy.dupErr = w.c.Connect()
		w.inConnect--
		cy.dupDone = true
	})
	if !simrt.BlockFor("life.server", "Connect-while-connected to return", 10*time.Minute, func() bool { return cy.dupDone }) {
		e.Violation("connect-while-connected", "Connect called on a connected client did not return\n%s", e.S.TaskDump())
		return
	}
	if w.causeBegun(cy) {
		return // the connection was ending anyway: nothing is claimed
	}
	if cy.dupErr == nil {
		e.Violation("connect-while-connected", "Connect on a connected client returned nil")
	}
	tok := fmt.Sprintf("after-dup-%d", cy.no)
	l.SendLine("PING :" + tok)
	ok := false
	for {
		ln, got := l.RecvLineFor(10 * time.Minute)
		if !got {
			break
		}
		if strings.TrimRight(ln, "\r\n") == "PONG :"+tok {
			ok = true
			break
		}
	}
	if w.causeBegun(cy) {
		return
	}
	if !ok {
		e.Violation("connect-while-connected", "after a refused Connect the existing connection %d no longer answers PING\n%s", cy.no, e.S.TaskDump())
	}
	// DISCONNECTED of an earlier connection is dispatched after its teardown
	// released the client, so it may legitimately arrive while this one is up
	// (a polling reconnect gets in first): only a DISCONNECTED beyond the
	// number of connections that have ended is attributable to the refused
	// Connect
	if w.regEnter != reg || (w.discCount != disc && w.discCount > cy.no-1) {
		e.Violation("connect-while-connected", "a refused Connect fired events: REGISTER %d->%d DISCONNECTED %d->%d with %d earlier connections", reg, w.regEnter, disc, w.discCount, cy.no-1)
	}
	// (the call is a scheduling point: a stray Close of an earlier cycle may land
	// on this connection meanwhile, so the guard is evaluated after it)
	if up := w.c.Connected(); !up && !w.causeBegun(cy) {
		e.Violation("connect-while-connected", "Connected() is false after a refused Connect although connection %d is up", cy.no)
	}
	e.Check()
}

func (w *lifeW) server(cy *lifeCycle) {
	e, l := w.e, cy.link
	reg, ok := Registration(l, 30*time.Minute)
	cy.regLines, cy.regOK = reg, ok
	if !ok {
		return
	}
	if w.track && cy.no > 1 && e.Prop == "C07" && w.curCycle() == cy && !l.ClientEnd {
		// the client has registered and the server has sent nothing yet: the
		// tracker must hold just the client itself
		st := w.c.StateTracker()
		ch, o1, o2, me := st.GetChannel("#life"), st.GetNick("other"), st.GetNick("third"), st.Me()
		dump := st.String()
		// the tracker calls above are scheduling points: the verdict only counts
		// if this is still the current, live connection (nothing was sent on it)
		if w.curCycle() == cy && !l.ClientEnd {
			if ch != nil || o1 != nil || o2 != nil {
				e.Violation("tracker-not-reset", "after reconnect %d (before the server sent anything) the tracker still holds the previous connection's channel/nicks:\n%s", cy.no, dump)
			}
			if me == nil || me.Nick != w.nick || len(me.Channels) != 0 {
				e.Violation("tracker-not-reset", "after reconnect %d the tracker's own entry is %+v, want nick %q on no channel", cy.no, me, w.nick)
			}
			e.Check()
		}
	}
	Welcome(l, w.nick)
	cy.welcomed = true
	if w.track {
		l.SendLine(":" + w.nick + "!sim@host.sim JOIN #life")
		l.SendLine(":irc.sim 353 " + w.nick + " = #life :" + w.nick + " @other +third")
		l.SendLine(":irc.sim 366 " + w.nick + " #life :End of NAMES")
	}
	// the connection must be usable: a marker is answered
	tok := fmt.Sprintf("marker-%d", cy.no)
	l.SendLine("PING :" + tok)
	deadline := 10 * time.Minute
	for {
		ln, ok := l.RecvLineFor(deadline)
		if !ok {
			break
		}
		if strings.TrimRight(ln, "\r\n") == "PONG :"+tok {
			cy.markerOK = true
			break
		}
	}
	if !cy.markerOK && !w.causeBegun(cy) && !l.ClientEnd && e.Prop == "C07" {
		e.Violation("marker-unanswered", "connection %d did not answer PING %s within %v although nothing had ended it\n%s", cy.no, tok, deadline, e.S.TaskDump())
	}
	if cy.dupConnect && cy.markerOK {
		w.dupConnect(cy)
	}
	if cy.quiet > 0 {
		simrt.Sleep(cy.quiet)
	}
	// pre-cause traffic: outbound triggers and the inbound backlog
	if cy.bgBusy > 0 {
		l.SendLine(":other!o@h PRIVMSG " + w.nick + " :busy")
	}
	if cy.outBurst > 0 || cy.bgBurst > 0 {
		l.SendLine(":other!o@h PRIVMSG " + w.nick + " :burst")
	}
	if cy.userBurst > 0 {
		e.S.Spawn(fmt.Sprintf("user-sender%d", cy.no), func() {
			for i := 0; i < cy.userBurst && !cy.discSeen && !w.causeBegun(cy); i++ {
				w.c.Privmsg("#life", fmt.Sprintf("user out %d.%d", cy.no, i))
			}
		})
	}
	if cy.inBacklog > 0 {
		per := (cy.inBacklog + cy.inSegments - 1) / cy.inSegments
		k := 0
		for s := 0; s < cy.inSegments && k < cy.inBacklog; s++ {
			var b strings.Builder
			for j := 0; j < per && k < cy.inBacklog; j++ {
				fmt.Fprintf(&b, ":other!o@h NOTICE %s :fill %d\r\n", w.nick, k)
				k++
			}
			l.Send(b.String())
			if s+1 < cy.inSegments {
				simrt.Sleep(0)
			}
		}
		if cy.inBacklog >= 33 {
			e.S.Count("probe.inbound-backlog-exceeds-queue")
		}
	}
	if cy.echoes > 0 {
		e.S.Count("probe.many-background-handlers-sending-when-the-connection-ends")
		var b strings.Builder
		for k := 0; k < cy.echoes; k++ {
			fmt.Fprintf(&b, ":other!o@h PRIVMSG %s :echo %d.%d\r\n", w.nick, cy.no, k)
		}
		l.Send(b.String())
	}
	if cy.midLine {
		l.Send(":other!o@h PRIVMSG " + w.nick + " :this line is cut in the mi")
	}
	cy.armed = true
	if !cy.early {
		w.fire(cy, cy.cause, "a")
	}
	if cy.cause2 >= 0 {
		w.fire(cy, cy.cause2, "b")
	}
	if cy.mute {
		e.S.Count("fault.peer-stops-reading")
		simrt.Block("life.server", "a peer that no longer reads (until the client closes the socket)", func() bool { return l.ClientEnd })
		return
	}
	// keep consuming what the client writes so that a bounded window drains
	for {
		ln, ok := l.RecvLine()
		if !ok {
			return
		}
		if strings.HasPrefix(ln, "QUIT") {
			l.CloseByServer()
		}
	}
}

// fire starts one disconnect cause as its own task (after the planned delay).
func (w *lifeW) fire(cy *lifeCycle, cause int, tag string) {
	e := w.e
	delay := func() {
		switch cy.delayKind {
		case 1:
			for i := 0; i < cy.delayN; i++ {
				simrt.Sleep(0)
			}
		case 2:
			simrt.Sleep(time.Duration(cy.delayN) * 17 * time.Millisecond)
		}
	}
	name := fmt.Sprintf("cause%d%s", cy.no, tag)
	e.S.Count("fault.cause." + causeNames[cause])
	switch cause {
	case causeClose1, causeCloseN:
		n := 1
		if cause == causeCloseN {
			n = cy.closers
		}
		for i := 0; i < n; i++ {
			e.S.Spawn(fmt.Sprintf("%s-closer%d", name, i), func() {
				delay()
				cy.scripted = true
				e.S.Logf("cause: Close() on connection %d", cy.no)
				w.closeCalls++
				err := w.c.Close()
				w.closeReturned++
				cy.closeErrs = append(cy.closeErrs, err)
				cy.closeRet++
			})
			cy.closersStarted()
		}
	case causeEOF:
		e.S.Spawn(name, func() {
			delay()
			cy.link.CloseByServer()
		})
	case causeReset:
		e.S.Spawn(name, func() {
			delay()
			cy.link.Reset()
		})
	case causeCancel:
		e.S.Spawn(name, func() {
			delay()
			cy.scripted = true
			e.S.Logf("cause: context cancelled for connection %d", cy.no)
			if cy.cancel != nil {
				cy.cancel()
			}
		})
	case causeCloseBG:
		e.S.Spawn(name, func() {
			delay()
			pre := ""
			if cy.midLine {
				pre = "\r\n" // ends the fragment sent before, so that the command is a line of its own
			}
			cy.link.Send(fmt.Sprintf("%s:other!o@h PRIVMSG %s :!close %d\r\n", pre, w.nick, cy.no))
		})
	case causeQuit:
		e.S.Spawn(name, func() {
			delay()
			e.S.Logf("cause: Quit() on connection %d", cy.no)
			w.c.Quit("bye")
			// in case the QUIT never reaches the server (flood delay, queue), the
			// server hangs up by itself after a while
			simrt.Sleep(90 * time.Second)
			cy.link.CloseByServer()
		})
	}
}

func (cy *lifeCycle) closersStarted() { cy.closeWant++ }

func (w *lifeW) runCycle(i int) {
	e := w.e
	// the connection of this cycle exists once Connect #i+1 has returned
	if !simrt.BlockFor("life.main", fmt.Sprintf("connection %d to be established", i+1), time.Hour, func() bool { return w.connects > i && len(w.cycles) > i }) {
		if i == 0 || w.reconn == 0 {
			e.Violation("harness", "connection %d never established", i+1)
		}
		e.Violation("no-reconnect", "reconnect %d issued from the %s did not complete within an hour\n%s", i+1,
			reconnNames[w.reconn], e.S.TaskDump())
		return
	}
	cy := w.cycles[i]
	// wait for whatever ends it to begin (the harness always starts a cause)
	simrt.BlockFor("life.main", "disconnect cause to begin", 3*time.Hour, func() bool { return w.definitelyBegun(cy) || cy.discSeen })
	if !w.definitelyBegun(cy) && !cy.discSeen {
		if !cy.regOK && e.Prop == "C07" && cy.no > 1 {
			e.Violation("no-registration-on-reconnect", "connection %d: the client never sent NICK/USER after reconnecting (got %q)\n%s", cy.no, cy.regLines, e.S.TaskDump())
		}
		e.Violation("harness-or-hang", "connection %d: neither a cause began nor did it end within 3 simulated hours (registration ok=%v lines=%q)\n%s", cy.no, cy.regOK, cy.regLines, e.S.TaskDump())
		return
	}
	e.S.Logf("cause begun for connection %d", cy.no)
	lines := cy.outBurst + cy.bgBurst + cy.userBurst + cy.inBacklog + 2*cy.echoes + 12
	notice := 10*time.Minute + time.Duration(lines)*7*time.Second + cy.slowHandler
	if !simrt.BlockFor("life.main", "the client to notice the end of the connection", notice, func() bool { return w.causeObserved(cy) || cy.discSeen }) {
		e.Violation("end-never-noticed", "connection %d: the server ended the link but the client did not read the EOF/error within %v (enough for every queued line at the slowest flood rate)\n%s", cy.no, notice, e.S.TaskDump())
		return
	}
	if !simrt.BlockFor("life.main", "DISCONNECTED", w.bound, func() bool { return w.discCount >= cy.no }) {
		e.Violation("disconnect-not-completed", "connection %d: a disconnect cause began but DISCONNECTED was not delivered within %v of simulated time\n%s", cy.no, w.bound, e.S.TaskDump())
		return
	}
	e.Check()
	if cy.closeWant > 0 {
		if !simrt.BlockFor("life.main", "Close to return", w.bound, func() bool { return cy.closeRet >= cy.closeWant || (!cy.armed) }) {
			e.Violation("close-did-not-return", "connection %d: %d of %d Close calls did not return within %v\n%s", cy.no, cy.closeWant-cy.closeRet, cy.closeWant, w.bound, e.S.TaskDump())
			return
		}
		e.Check()
	}
	if e.Prop == "C07" && cy.no > 1 && cy.regOK {
		// registration of the new connection was sent with the current nick
		if NickOf(cy.regLines) != w.nick {
			e.Violation("registration-on-reconnect", "connection %d registered with %q, want nick %q", cy.no, cy.regLines, w.nick)
		}
		// ... and as the user it is configured as: the new connection is not
		// affected by the teardown of the previous one (the user name is the
		// configured one or the one the previous server's welcome reported)
		user := cy.regLines[len(cy.regLines)-1]
		if user != "USER sim 12 * :Sim User" && user != "USER ident 12 * :Sim User" {
			e.Violation("registration-on-reconnect", "connection %d registered with %q: the client is configured as user \"sim\" with real name \"Sim User\" (the first connection registered with %q)", cy.no, cy.regLines, w.cycles[0].regLines)
		}
		e.Check()
	}
	if w.reconn == 0 || i+1 >= w.ncycles {
		// quiescence, then the per-connection counts and the leak check
		simrt.Settle(45 * time.Second)
		w.countsAndLeaks(cy)
	}
	if w.reconn == 0 && i+1 < w.ncycles {
		w.connect()
	}
}

func (w *lifeW) countsAndLeaks(cy *lifeCycle) {
	e := w.e
	if e.Prop == "C06" {
		if w.discCount != cy.no {
			e.Violation("disconnected-once", "after connection %d ended, DISCONNECTED has been delivered %d time(s) in total, want %d", cy.no, w.discCount, cy.no)
		}
		if w.regExit != w.connects {
			e.Violation("register-once", "REGISTER handlers completed %d times for %d successful Connects", w.regExit, w.connects)
		}
		e.Check()
	}
	if e.Prop == "C07" {
		for _, t := range e.S.LiveTasks() {
			if t.Lib && strings.HasPrefix(t.Origin, "client/connection.go") {
				e.Violation("goroutine-leak", "after connection %d ended and 45 simulated seconds passed, a connection goroutine is still alive: task %s started at %s, now %s\n%s",
					cy.no, t.ID, t.Origin, e.S.Where(t), e.S.TaskDump())
			}
		}
		e.Check()
	}
}

func (w *lifeW) finish() {
	e := w.e
	if e.Prop == "C06" {
		// Close when not connected does nothing
		before := w.discCount
		if err := w.c.Close(); err != nil {
			e.Violation("close-unconnected", "Close on a disconnected client returned %v", err)
		}
		simrt.Settle(5 * time.Second)
		if w.discCount != before {
			e.Violation("close-unconnected", "Close on a disconnected client fired DISCONNECTED")
		}
		if w.c.Connected() {
			e.Violation("connected-after-end", "Connected() is true after the last connection ended")
		}
		e.Check()
	}
}

var _ = errors.New
