package worlds

import (
	"fmt"
	"sort"
	"strings"
	"time"

	"github.com/fluffle/goirc/client"

	"verifsim/simnet"
	"verifsim/simrt"
)

// W-send: many sender tasks -> wire.  Decides C08, C09 and C11.
func init() {
	register(&World{Name: "send", Run: sendRun, MaxSteps: 2000000, MaxSimTime: 200 * time.Hour})
}

// session establishes a connection with a scripted server that registers the
// client, welcomes it, and then hands every further client line to onLine.
type session struct {
	e      *Env
	c      *client.Conn
	l      *simnet.Link
	nick   string
	ready  bool
	lines  []string // every complete line received after registration, terminator stripped
	raw    []string // with terminators
	pause  func()   // called by the server before reading each line (slow/bursty reader)
	onLine func(string)
	regs   []string
	from   []int    // link the line of the same index arrived on
	greet  []string // lines the server sends the moment it accepts the connection, before it has read anything
}

func startSession(e *Env, o ClientOpts, plan func(l *simnet.Link)) *session {
	s := &session{e: e, nick: o.Nick}
	if s.nick == "" {
		s.nick = "me"
		o.Nick = "me"
	}
	e.LinkPlan = plan
	e.OnDial = func(l *simnet.Link) {
		s.l = l
		e.S.Spawn(fmt.Sprintf("server%d", l.ID), func() {
			// servers speak first (NOTICE AUTH, a PING cookie): these lines can be
			// in the client's hands before Connect has finished starting up
			for _, ln := range s.greet {
				l.Send(ln + "\r\n")
			}
			reg, ok := Registration(l, time.Hour)
			s.regs = reg
			for _, ln := range reg {
				// whatever a handler sent while the client was still registering
				if !strings.HasPrefix(ln, "NICK ") && !strings.HasPrefix(ln, "USER ") && !strings.HasPrefix(ln, "PASS ") && !strings.HasPrefix(ln, "CAP ") {
					s.lines = append(s.lines, ln)
					s.from = append(s.from, l.ID)
				}
			}
			if !ok {
				return
			}
			Welcome(l, s.nick)
			s.ready = true
			for {
				if s.pause != nil {
					s.pause()
				}
				ln, ok := l.RecvLine()
				if !ok {
					return
				}
				s.raw = append(s.raw, ln)
				t := strings.TrimSuffix(ln, "\n")
				t = strings.TrimSuffix(t, "\r")
				s.lines = append(s.lines, t)
				s.from = append(s.from, l.ID)
				if s.onLine != nil {
					s.onLine(t)
				}
			}
		})
	}
	s.c = NewClient(o)
	return s
}

func (s *session) connect() bool {
	if err := s.c.Connect(); err != nil {
		s.e.Violation("harness-connect", "Connect failed: %v", err)
		return false
	}
	welcomed := false
	s.c.HandleFunc(client.CONNECTED, func(*client.Conn, *client.Line) { welcomed = true })
	// the CONNECTED handler may have been registered after the event: accept
	// either the event or quiescence after the server's welcome
	simrt.BlockFor("session", "welcome", time.Hour, func() bool { return s.ready })
	simrt.Settle(time.Second)
	_ = welcomed
	return s.ready
}

func sendRun(e *Env) {
	switch e.Prop {
	case "C09":
		sendOrder(e)
	default:
		sendCommands(e)
	}
}

// ---------------------------------------------------------------------------
// C09: in order, once each

// numericProbe parses a sender's line of the form "PING :<id+1><k as 6 digits>"
// (a lag probe with a short decimal token; the client's own keep-alive carries a
// clock reading of 17 digits and more).
func numericProbe(ln string) (id, k int, ok bool) {
	t := strings.TrimPrefix(ln, "PING :")
	if t == ln || len(t) < 7 || len(t) > 10 {
		return 0, 0, false
	}
	n := 0
	for _, c := range t {
		if c < '0' || c > '9' {
			return 0, 0, false
		}
		n = n*10 + int(c-'0')
	}
	return n/1000000 - 1, n % 1000000, true
}

func sendOrder(e *Env) {
	g := G{e.S}
	nSenders := 1 + g.W(2, 3, 3, 2, 2, 1, 1, 1)
	drain := g.Intn(4) // 0 fast, 1 slow, 2 bursts, 3 very slow start
	ping := []time.Duration{0, 0, 2 * time.Second, 30 * time.Second}[g.Intn(4)]
	// the dial timeout is a knob that must not matter to an established
	// connection, however long the server stalls
	timeout := []time.Duration{0, 0, 2 * time.Second, 10 * time.Second, 30 * time.Second}[g.Intn(5)]
	// some senders use Privmsg with texts longer than SplitLen: the pieces of one
	// call and the sender's next line must keep their order too
	anySplit := g.Pct(35)
	splitLen := 0
	if anySplit {
		splitLen = []int{30, 40, 60}[g.Intn(3)]
	}
	s := startSession(e, g.Knobs(ClientOpts{Nick: "me", Flood: true, PingFreq: ping, Track: g.Pct(30), Timeout: timeout, SplitLen: splitLen}), func(l *simnet.Link) {
		l.ChunkMode = g.Intn(4)
		l.Window = []int{0, 0, 40, 200, 2000}[g.Intn(5)]
	})
	// now and then a second, unrelated client lives in the same process (a bot
	// on two networks): whatever it sends goes to its own server, and the two
	// have nothing in common
	var other *client.Conn
	var otherLines []string
	otherSent, otherDone := 0, true
	if g.Pct(15) {
		e.S.Count("probe.second-client-in-the-same-process")
		other = NewClient(ClientOpts{Nick: "other", Server: "other.sim", Flood: true})
		mainDial := e.OnDial
		mainPlan := e.LinkPlan
		e.LinkPlan = func(l *simnet.Link) {
			if strings.HasPrefix(l.Addr, "other.sim") {
				l.ChunkMode = g.Intn(4)
				l.Window = []int{0, 7, 40}[g.Intn(3)]
				return
			}
			mainPlan(l)
		}
		e.OnDial = func(l *simnet.Link) {
			if !strings.HasPrefix(l.Addr, "other.sim") {
				mainDial(l)
				return
			}
			e.S.Spawn("other-server", func() {
				if _, ok := Registration(l, time.Hour); !ok {
					return
				}
				Welcome(l, "other")
				for {
					if e.S.Choose(3) == 0 {
						simrt.Sleep(time.Duration(e.S.Choose(3)) * time.Millisecond)
					}
					ln, ok := l.RecvLine()
					if !ok {
						return
					}
					otherLines = append(otherLines, strings.TrimRight(ln, "\r\n"))
				}
			})
		}
	}
	burstLeft := 0
	s.pause = func() {
		switch drain {
		case 1:
			simrt.Sleep(time.Duration(e.S.Choose(50)) * time.Millisecond)
		case 2:
			if burstLeft == 0 {
				simrt.Sleep(time.Duration(1+e.S.Choose(20)) * time.Second * time.Duration(1+e.S.Choose(4)))
				burstLeft = 1 + e.S.Choose(60)
			}
			burstLeft--
		case 3:
			if len(s.lines) == 0 {
				simrt.Sleep(5 * time.Minute)
			}
		}
	}
	type sender struct {
		id      int
		n       int
		kind    int // 0 user task, 1 foreground handler, 2 background handler
		long    bool
		issued  []string
		payload []string
		split   bool // alternates long Privmsg calls (split into pieces) with short Raw lines, to its own target
		numeric bool // its lines are lag probes: PING with a short decimal token
		done    bool
		started bool
	}
	var senders []*sender
	total := 0
	for i := 0; i < nSenders; i++ {
		sd := &sender{id: i, kind: g.W(3, 2, 2), long: g.Pct(15), split: anySplit && g.Pct(50)}
		sd.n = []int{1, 2, 5, 20, 40, 70, 200}[g.Intn(7)]
		// "byte for byte": arbitrary bytes and arbitrary runes other than CR/LF
		if g.Pct(40) {
			for j := g.Range(1, 6); j > 0; j-- {
				sd.payload = append(sd.payload, wirePayload(g))
			}
			e.S.Count("probe.binary-or-unicode-payload")
		}
		if !sd.split && sd.payload == nil && g.Pct(20) {
			sd.numeric = true
			e.S.Count("probe.sender-of-numeric-ping-tokens")
		}
		senders = append(senders, sd)
		if !sd.split {
			total += sd.n
		}
	}
	e.Notef("senders=%d lines=%d drain=%s ping=%v window/chunk per link plan", nSenders, total, []string{"fast", "slow", "bursts", "late start"}[drain], ping)
	issue := func(sd *sender) {
		sd.started = true
		for k := 0; k < sd.n && sd.split; k++ {
			words := strings.Repeat("w ", 20+e.S.Choose(80))
			s.c.Privmsg(fmt.Sprintf("#m%d", sd.id), fmt.Sprintf("B%d %sE%d", k, words, k))
			s.c.Raw(fmt.Sprintf("PRIVMSG #m%d :r%d", sd.id, k))
		}
		for k := 0; k < sd.n && !sd.split; k++ {
			var line string
			if sd.long && k%3 == 0 {
				line = fmt.Sprintf("PRIVMSG #c :s%d.%d %s", sd.id, k, strings.Repeat("x", 300+k))
			} else {
				line = fmt.Sprintf("PRIVMSG #c :s%d.%d", sd.id, k)
			}
			if sd.payload != nil {
				line += " " + sd.payload[k%len(sd.payload)]
			}
			if sd.numeric {
				line = fmt.Sprintf("PING :%d%06d", sd.id+1, k)
			}
			sd.issued = append(sd.issued, line)
			if sd.numeric && k%2 == 0 {
				s.c.Ping(strings.TrimPrefix(line, "PING :"))
				continue
			}
			s.c.Raw(line)
		}
		sd.done = true
	}
	for _, sd := range senders {
		sd := sd
		trig := fmt.Sprintf("go%d", sd.id)
		h := client.HandlerFunc(func(c *client.Conn, l *client.Line) {
			if l.Text() == trig && !sd.started {
				issue(sd)
			}
		})
		switch sd.kind {
		case 1:
			s.c.Handle("NOTICE", h)
		case 2:
			s.c.HandleBG("NOTICE", h)
		}
	}
	// the server may speak first: the trigger of a handler-driven sender arrives
	// the moment the connection is accepted, so its lines are handed over while
	// Connect is still finishing
	for _, sd := range senders {
		sd := sd
		if sd.kind != 0 && g.Pct(25) {
			e.S.Count("fault.handler-sends-while-connect-is-finishing")
			orig := e.OnDial
			e.OnDial = func(l *simnet.Link) {
				orig(l)
				l.SendLine(fmt.Sprintf(":u!u@h NOTICE me :go%d", sd.id))
			}
		}
	}
	if !s.connect() {
		return
	}
	if other != nil {
		if err := other.Connect(); err != nil {
			e.Violation("harness-connect", "the second client's Connect failed: %v", err)
			return
		}
		otherDone = false
		e.S.Spawn("other-sender", func() {
			for k := 0; k < 60; k++ {
				other.Raw(fmt.Sprintf("PRIVMSG #other :o%d %s", k, strings.Repeat("o", k%40)))
				otherSent++
				if e.S.Choose(3) == 0 {
					simrt.Sleep(time.Duration(e.S.Choose(3)) * time.Millisecond)
				}
			}
			otherDone = true
		})
	}
	// ordinary inbound traffic while the senders run: server PINGs (answered by
	// the client's own PONGs, which share the output queue) and chatter
	stopTraffic := false
	if g.Pct(60) {
		every := []time.Duration{0, 300 * time.Microsecond, 5 * time.Millisecond, time.Second}[g.Intn(4)]
		e.S.Spawn("server-pinger", func() {
			for k := 0; k < 400 && !stopTraffic; k++ {
				if e.S.Choose(4) == 0 {
					s.l.SendLine(":u!u@h PRIVMSG me :chatter")
				} else {
					s.l.SendLine(fmt.Sprintf("PING :srv%d", k))
				}
				e.S.Count("fault.server-ping-during-sends")
				if every == 0 {
					simrt.Sleep(0)
				} else {
					simrt.Sleep(every)
				}
			}
		})
	}
	defer func() { stopTraffic = true }()
	if g.Pct(20) {
		// a reconnect timer of the application that fires although the connection
		// is up: the call is refused and that is all - the connection stays up and
		// what has been handed over is still written
		e.S.Count("fault.connect-called-while-connected")
		nStray := g.Range(1, 3)
		e.S.Spawn("reconnect-timer", func() {
			for k := 0; k < nStray && !stopTraffic; k++ {
				simrt.Sleep(time.Duration(e.S.Choose(40)) * time.Millisecond)
				for i := e.S.Choose(50); i > 0; i-- {
					simrt.Sleep(0)
				}
				if err := s.c.Connect(); err == nil {
					e.Violation("harness", "Connect on a connected client returned nil")
					return
				}
			}
		})
	}
	for _, sd := range senders {
		sd := sd
		if sd.kind == 0 {
			e.S.Spawn(fmt.Sprintf("sender%d", sd.id), func() { issue(sd) })
		} else {
			s.l.SendLine(fmt.Sprintf(":u!u@h NOTICE me :go%d", sd.id))
		}
	}
	allDone := func() bool {
		for _, sd := range senders {
			if !sd.done {
				return false
			}
		}
		return true
	}
	// With flood protection off and a server that keeps reading, everything
	// handed to the client must reach the wire: generous simulated bound.
	// (a split sender's call becomes up to 201/(SplitLen-3) pieces plus its short line)
	boundLines := total + 400 // (the client's PONGs to the server's PINGs share the queue)
	for _, sd := range senders {
		if sd.split {
			boundLines += sd.n * (2 + 201/(splitLen-3))
		}
	}
	bound := time.Hour + time.Duration(boundLines)*30*time.Second
	if !simrt.BlockFor("send.main", "all senders to return", bound, allDone) {
		e.Violation("sender-stuck", "a sender did not return although the connection is up and the server keeps reading\n%s", e.S.TaskDump())
		return
	}
	stopTraffic = true
	got := func() int {
		n := 0
		for _, ln := range s.lines {
			if _, _, ok := numericProbe(ln); ok || strings.HasPrefix(ln, "PRIVMSG #c :s") {
				n++
			}
		}
		return n
	}
	splitDone := func() bool {
		for _, sd := range senders {
			if !sd.split || sd.n == 0 {
				continue
			}
			last := fmt.Sprintf("PRIVMSG #m%d :r%d", sd.id, sd.n-1)
			found := false
			for _, ln := range s.lines {
				if ln == last {
					found = true
					break
				}
			}
			if !found {
				return false
			}
		}
		return true
	}
	if !simrt.BlockFor("send.main", "all lines to arrive", bound, func() bool { return got() >= total && splitDone() }) {
		simrt.Settle(time.Minute)
	}
	simrt.Settle(30 * time.Second)
	// oracle: exactly once, byte for byte, per-sender order
	per := map[int][]string{}
	for _, ln := range s.lines {
		if id, _, ok := numericProbe(ln); ok {
			per[id] = append(per[id], ln)
			continue
		}
		if !strings.HasPrefix(ln, "PRIVMSG #c :s") {
			continue
		}
		var id, k int
		if _, err := fmt.Sscanf(ln, "PRIVMSG #c :s%d.%d", &id, &k); err != nil {
			e.Violation("corrupted", "wire line %q does not match any issued line", ln)
			return
		}
		per[id] = append(per[id], ln)
	}
	for _, sd := range senders {
		if !sd.split {
			continue
		}
		// the pieces of call k (from the one carrying "B<k> " to the one ending in
		// "E<k>") come before the sender's next line r<k>, which comes before
		// the pieces of call k+1: each of these events once, in this order
		prefix := fmt.Sprintf("PRIVMSG #m%d :", sd.id)
		var events []int // 3k: first piece, 3k+1: last piece, 3k+2: r<k>
		for _, ln := range s.lines {
			if !strings.HasPrefix(ln, prefix) {
				continue
			}
			text := strings.TrimPrefix(ln, prefix)
			var k int
			if _, err := fmt.Sscanf(text, "r%d", &k); err == nil && text == fmt.Sprintf("r%d", k) {
				events = append(events, 3*k+2)
				continue
			}
			if _, err := fmt.Sscanf(text, "B%d ", &k); err == nil {
				events = append(events, 3*k)
			}
			if i := strings.LastIndex(text, "E"); i >= 0 {
				if _, err := fmt.Sscanf(text[i:], "E%d", &k); err == nil && strings.HasSuffix(text, fmt.Sprintf("E%d", k)) {
					events = append(events, 3*k+1)
				}
			}
		}
		e.Check()
		for i, ev := range events {
			if ev != i {
				e.Violation("order", "sender %d (Privmsg split into pieces, then a short line, %d times): on the wire event %d is %s, expected %s (a piece or line of this one goroutine overtook another, or one is missing or doubled)",
					sd.id, sd.n, i, splitEventName(ev), splitEventName(i))
				return
			}
		}
		if len(events) != 3*sd.n {
			e.Violation("exactly-once", "sender %d issued %d split messages each followed by a short line; %d of the %d expected first-piece/last-piece/line events reached the wire", sd.id, sd.n, len(events), 3*sd.n)
			return
		}
	}
	for _, sd := range senders {
		if sd.split {
			continue
		}
		w := per[sd.id]
		e.Check()
		if len(w) != len(sd.issued) {
			e.Violation("exactly-once", "sender %d (%s) issued %d lines, %d reached the wire (connection still up=%v)\nissued: %s\nwire:   %s",
				sd.id, []string{"user task", "fg handler", "bg handler"}[sd.kind], len(sd.issued), len(w), s.c.Connected(), abbrev(sd.issued), abbrev(w))
			return
		}
		for i := range w {
			if w[i] != sd.issued[i] {
				e.Violation("order", "sender %d: position %d on the wire is %q, issued %q (reordered, duplicated or altered)", sd.id, i, clip(w[i]), clip(sd.issued[i]))
				return
			}
		}
	}
	if other != nil {
		// the second client's lines reached its own server, whole and in order
		simrt.BlockFor("send.main", "the second client's lines", time.Hour, func() bool { return otherDone && len(otherLines) >= otherSent })
		e.Check()
		for k := 0; k < otherSent; k++ {
			want := fmt.Sprintf("PRIVMSG #other :o%d %s", k, strings.Repeat("o", k%40))
			if k >= len(otherLines) || otherLines[k] != want {
				got := "(nothing)"
				if k < len(otherLines) {
					got = otherLines[k]
				}
				e.Violation("corrupted", "a second client in the same process sent %q as its line %d; its server received %q", want, k, clip(got))
				return
			}
		}
		other.Close()
	}
	if !s.c.Connected() {
		e.Violation("harness", "connection went down during a run without faults")
	}
	if g.Pct(30) && !e.S.Failed() {
		sendAcrossReconnect(e, g, s)
		return
	}
	s.c.Close()
}

// sendAcrossReconnect: the server hangs up while user tasks are still sending;
// a DISCONNECTED handler reconnects at once and hands over numbered lines on
// the new connection.  Whatever is handed over after that Connect has returned
// must arrive exactly once and in order; lines of the racing senders that do
// arrive on the new connection must still be in their sender's order, once.
func sendAcrossReconnect(e *Env, g G, s *session) {
	e.S.Count("fault.reconnect-from-disconnected-handler-with-senders")
	first := s.l.ID
	nChat := g.Range(1, 3)
	stopChat := false
	for j := 0; j < nChat; j++ {
		j := j
		e.S.Spawn(fmt.Sprintf("chatter%d", j), func() {
			for k := 0; k < 300 && !stopChat; k++ {
				s.c.Raw(fmt.Sprintf("PRIVMSG #c :c%d.%d", j, k))
				if e.S.Choose(3) == 0 {
					simrt.Sleep(time.Duration(e.S.Choose(3)) * time.Millisecond)
				}
			}
		})
	}
	K := g.Range(1, 40)
	reconnected, handed := false, false
	var connErr error
	s.c.HandleFunc(client.DISCONNECTED, func(c *client.Conn, l *client.Line) {
		if reconnected {
			return
		}
		reconnected = true
		if connErr = c.Connect(); connErr != nil {
			handed = true
			return
		}
		for k := 0; k < K; k++ {
			c.Raw(fmt.Sprintf("PRIVMSG #c :h.%d", k))
		}
		handed = true
	})
	simrt.Sleep(time.Duration(g.S.Choose(20)) * time.Millisecond)
	s.l.CloseByServer()
	if !simrt.BlockFor("send.main", "the DISCONNECTED handler to reconnect and hand over its lines", time.Hour, func() bool { return handed }) {
		e.Violation("sender-stuck", "after the server hung up, the DISCONNECTED handler that reconnects and sends %d lines did not return (reconnected=%v)\n%s", K, reconnected, e.S.TaskDump())
		return
	}
	if connErr != nil {
		e.Violation("harness-connect", "reconnect from the DISCONNECTED handler failed: %v", connErr)
		return
	}
	stopChat = true
	newLines := func() []string {
		var out []string
		for i, ln := range s.lines {
			if s.from[i] != first {
				out = append(out, ln)
			}
		}
		return out
	}
	count := func() int {
		n := 0
		for _, ln := range newLines() {
			if strings.HasPrefix(ln, "PRIVMSG #c :h.") {
				n++
			}
		}
		return n
	}
	simrt.BlockFor("send.main", "the handed-over lines to arrive", 10*time.Minute, func() bool { return count() >= K })
	simrt.Settle(30 * time.Second)
	e.Check()
	next := 0
	lastChat := map[int]int{}
	for _, ln := range newLines() {
		var k, j int
		if _, err := fmt.Sscanf(ln, "PRIVMSG #c :h.%d", &k); err == nil {
			if k != next {
				e.Violation("exactly-once", "after the reconnect the handler handed over lines h.0..h.%d on a connection that stayed up; the server received h.%d where h.%d was due (lines of the new connection: %s)", K-1, k, next, abbrev(newLines()))
				return
			}
			next++
		} else if _, err := fmt.Sscanf(ln, "PRIVMSG #c :c%d.%d", &j, &k); err == nil {
			if last, seen := lastChat[j]; seen && k <= last {
				e.Violation("order", "sender %d: line %d arrived after line %d on the new connection", j, k, last)
				return
			}
			lastChat[j] = k
		}
	}
	if next != K {
		e.Violation("exactly-once", "after the reconnect the handler handed over %d lines on a connection that stayed up (Connect had returned nil); %d arrived (lines of the new connection: %s)", K, next, abbrev(newLines()))
		return
	}
	s.c.Close()
}

// bystander is a second, unrelated client in the same process (a bot on two
// networks) with a server of its own: whatever it sends goes there, whole and
// in order, and nothing of it ever shows up on the first client's connection.
type bystander struct {
	e     *Env
	c     *client.Conn
	lines []string
	sent  int
	done  bool
}

func bystanderLine(k int) string {
	if k%11 == 3 {
		// now and then a very long one (longer than any buffer on its way out)
		return fmt.Sprintf("PRIVMSG #other :o%d %s", k, strings.Repeat("o", 4200+k))
	}
	return fmt.Sprintf("PRIVMSG #other :o%d %s", k, strings.Repeat("o", k%40))
}

func startBystander(e *Env, g G) *bystander {
	b := &bystander{e: e, done: true}
	e.S.Count("probe.second-client-in-the-same-process")
	b.c = NewClient(ClientOpts{Nick: "other", Server: "other.sim", Flood: true})
	mainDial, mainPlan := e.OnDial, e.LinkPlan
	e.LinkPlan = func(l *simnet.Link) {
		if strings.HasPrefix(l.Addr, "other.sim") {
			l.ChunkMode = g.Intn(4)
			l.Window = []int{0, 7, 40}[g.Intn(3)]
			return
		}
		mainPlan(l)
	}
	e.OnDial = func(l *simnet.Link) {
		if !strings.HasPrefix(l.Addr, "other.sim") {
			mainDial(l)
			return
		}
		e.S.Spawn("other-server", func() {
			if _, ok := Registration(l, time.Hour); !ok {
				return
			}
			Welcome(l, "other")
			for {
				if e.S.Choose(3) == 0 {
					simrt.Sleep(time.Duration(e.S.Choose(3)) * time.Millisecond)
				}
				ln, ok := l.RecvLine()
				if !ok {
					return
				}
				b.lines = append(b.lines, strings.TrimRight(ln, "\r\n"))
			}
		})
	}
	return b
}

// run connects the bystander and lets it talk, n lines at its own pace.
func (b *bystander) run(n int) bool {
	if err := b.c.Connect(); err != nil {
		b.e.Violation("harness-connect", "the second client's Connect failed: %v", err)
		return false
	}
	b.done = false
	b.e.S.Spawn("other-sender", func() {
		for k := 0; k < n; k++ {
			b.c.Raw(bystanderLine(k))
			b.sent++
			if b.e.S.Choose(3) == 0 {
				simrt.Sleep(time.Duration(b.e.S.Choose(3)) * time.Millisecond)
			}
		}
		b.done = true
	})
	return true
}

// verify waits for the bystander's lines and compares them with what it sent.
func (b *bystander) verify(class string) bool {
	simrt.BlockFor("send.main", "the second client's lines", time.Hour, func() bool { return b.done && len(b.lines) >= b.sent })
	b.e.Check()
	for k := 0; k < b.sent; k++ {
		want := bystanderLine(k)
		if k >= len(b.lines) || b.lines[k] != want {
			got := "(nothing)"
			if k < len(b.lines) {
				got = b.lines[k]
			}
			b.e.Violation(class, "a second client in the same process sent %q as its line %d; its own server received %q", want, k, clip(got))
			return false
		}
	}
	b.c.Close()
	return true
}

// wirePayload is text a caller may legitimately hand to Raw: any bytes but CR
// and LF.  Half of the time it is valid UTF-8 whose code points have "special"
// low bytes (a rune-to-byte truncation would mistake them for CR, LF, NUL,
// space, colon), otherwise raw bytes including NUL, 0x01, 0x80-0xff.
func wirePayload(g G) string {
	n := g.Range(1, 24)
	var b []byte
	if g.Bool() {
		low := []rune{0x0a, 0x0d, 0x00, 0x20, 0x3a, 0x85, 0x28, 0x29}
		for i := 0; i < n; i++ {
			var r rune
			switch g.Intn(4) {
			case 0:
				r = rune(g.Range(0x20, 0x7e))
			case 1:
				r = rune(g.Range(1, 0xd7))<<8 | low[g.Intn(len(low))]
			case 2:
				r = rune(g.Range(0x100, 0x10ff))<<8 | low[g.Intn(len(low))]
			default:
				r = rune(g.Range(0xa0, 0x2fff))
			}
			if r >= 0xd800 && r < 0xe000 {
				r = 0x4e0a
			}
			b = append(b, string(r)...)
		}
	} else {
		for i := 0; i < n; i++ {
			c := byte(g.Intn(256))
			if c == '\r' || c == '\n' {
				c = 0
			}
			b = append(b, c)
		}
	}
	return string(b)
}

func splitEventName(ev int) string {
	return fmt.Sprintf("%s of call %d", []string{"the first piece", "the last piece", "the short line after"}[ev%3], ev/3)
}

func clip(s string) string {
	if len(s) > 60 {
		return s[:60] + "..."
	}
	return s
}

func abbrev(xs []string) string {
	var b strings.Builder
	for i, x := range xs {
		if i > 0 {
			b.WriteString(" | ")
		}
		if i >= 12 {
			fmt.Fprintf(&b, "... (%d more)", len(xs)-i)
			break
		}
		b.WriteString(clip(strings.TrimPrefix(x, "PRIVMSG #c :")))
	}
	return b.String()
}

// ---------------------------------------------------------------------------
// C08 and C11: command methods with hostile arguments, sequentially attributed

var hostilePool = []string{
	"", " ", "x", "#chan", "nick", "\r", "\n", "\r\n", "a\rb", "a\nb", "\r\nQUIT :pwned", "x\r\nJOIN #evil", "\nPRIVMSG #evil :hi",
	"\x00", "a\x00b", "\x01", "\x01ACTION x\x01", ":", ":lead", "tr ailing", "with : colon", "%s%d%!", "\r\r\n\n",
}

type cmdCall struct {
	name string
	verb string
	call func(c *client.Conn, a []string)
	args int
	// split describes calls whose text is split (C11): text index and framing
	split bool
}

var cmdTable = []cmdCall{
	{"Raw", "", func(c *client.Conn, a []string) { c.Raw(a[0]) }, 1, false},
	{"Pass", "PASS", func(c *client.Conn, a []string) { c.Pass(a[0]) }, 1, false},
	{"Nick", "NICK", func(c *client.Conn, a []string) { c.Nick(a[0]) }, 1, false},
	{"User", "USER", func(c *client.Conn, a []string) { c.User(a[0], a[1]) }, 2, false},
	{"Join", "JOIN", func(c *client.Conn, a []string) { c.Join(a[0]) }, 1, false},
	{"JoinKey", "JOIN", func(c *client.Conn, a []string) { c.Join(a[0], a[1]) }, 2, false},
	{"Part", "PART", func(c *client.Conn, a []string) { c.Part(a[0], a[1]) }, 2, false},
	{"Part0", "PART", func(c *client.Conn, a []string) { c.Part(a[0]) }, 1, false},
	{"Kick", "KICK", func(c *client.Conn, a []string) { c.Kick(a[0], a[1], a[2]) }, 3, false},
	{"Quit", "QUIT", func(c *client.Conn, a []string) { c.Quit(a[0]) }, 1, false},
	{"Quit0", "QUIT", func(c *client.Conn, a []string) { c.Quit() }, 0, false},
	{"Whois", "WHOIS", func(c *client.Conn, a []string) { c.Whois(a[0]) }, 1, false},
	{"Who", "WHO", func(c *client.Conn, a []string) { c.Who(a[0]) }, 1, false},
	{"Privmsg", "PRIVMSG", func(c *client.Conn, a []string) { c.Privmsg(a[0], a[1]) }, 2, true},
	{"Privmsgln", "PRIVMSG", func(c *client.Conn, a []string) { c.Privmsgln(a[0], a[1]) }, 2, true},
	{"Privmsgf", "PRIVMSG", func(c *client.Conn, a []string) { c.Privmsgf(a[0], "%s", a[1]) }, 2, true},
	{"Notice", "NOTICE", func(c *client.Conn, a []string) { c.Notice(a[0], a[1]) }, 2, true},
	{"Ctcp", "PRIVMSG", func(c *client.Conn, a []string) { c.Ctcp(a[0], a[2], a[1]) }, 3, true},
	{"CtcpReply", "NOTICE", func(c *client.Conn, a []string) { c.CtcpReply(a[0], a[2], a[1]) }, 3, true},
	{"Version", "PRIVMSG", func(c *client.Conn, a []string) { c.Version(a[0]) }, 1, false},
	{"Action", "PRIVMSG", func(c *client.Conn, a []string) { c.Action(a[0], a[1]) }, 2, true},
	{"Topic", "TOPIC", func(c *client.Conn, a []string) { c.Topic(a[0], a[1]) }, 2, false},
	{"Topic0", "TOPIC", func(c *client.Conn, a []string) { c.Topic(a[0]) }, 1, false},
	{"Mode", "MODE", func(c *client.Conn, a []string) { c.Mode(a[0], a[1], a[2]) }, 3, false},
	{"Mode0", "MODE", func(c *client.Conn, a []string) { c.Mode(a[0]) }, 1, false},
	{"Away", "AWAY", func(c *client.Conn, a []string) { c.Away(a[0]) }, 1, false},
	{"Away0", "AWAY", func(c *client.Conn, a []string) { c.Away() }, 0, false},
	{"Invite", "INVITE", func(c *client.Conn, a []string) { c.Invite(a[0], a[1]) }, 2, false},
	{"Oper", "OPER", func(c *client.Conn, a []string) { c.Oper(a[0], a[1]) }, 2, false},
	{"VHost", "VHOST", func(c *client.Conn, a []string) { c.VHost(a[0], a[1]) }, 2, false},
	{"Ping", "PING", func(c *client.Conn, a []string) { c.Ping(a[0]) }, 1, false},
	{"Pong", "PONG", func(c *client.Conn, a []string) { c.Pong(a[0]) }, 1, false},
	{"Cap", "CAP", func(c *client.Conn, a []string) { c.Cap(a[0], a[1], a[2]) }, 3, false},
	{"Cap0", "CAP", func(c *client.Conn, a []string) { c.Cap(a[0]) }, 1, false},
	{"Authenticate", "AUTHENTICATE", func(c *client.Conn, a []string) { c.Authenticate(a[0]) }, 1, false},
}

// splitText draws a text biased towards the split rules.
func splitText(g G, L int, allowNL bool) string {
	t := splitTextCore(g, L, allowNL)
	// a text the caller has framed itself as a CTCP (both delimiters, or one):
	// text like any other as far as splitting goes
	switch g.Intn(12) {
	case 0:
		return "\x01" + t + "\x01"
	case 1:
		return "\x01ACTION " + t + "\x01"
	case 2:
		return "\x01" + t
	}
	return t
}

func splitTextCore(g G, L int, allowNL bool) string {
	kind := g.Intn(11)
	n := 0
	switch g.Intn(6) {
	case 0:
		n = g.Range(0, 12)
	case 1:
		n = g.Range(L-4, L+4)
	case 2:
		n = g.Range(L+1, 2*L+3)
	case 3:
		n = g.Range(2*L, 4*L+10)
	case 4:
		n = g.Range(0, 3*L)
	default:
		n = g.Range(L-1, L+1)
	}
	if n < 0 {
		n = 0
	}
	if n > 4000 {
		n = 4000
	}
	if kind == 10 {
		// one byte (or a short unit) repeated: continuation bytes, lead bytes,
		// dots, NUL - text in which no position looks like a place to cut
		unit := []string{"\x80", "\xbf", "\x85", "\xa0", "\xc3", "\xe4\xb8", ".", "\x00", "\xf0\x9f", "x\x80\x80\x80\x80\x80\x80\x80\x80\x80\x80\x80"}[g.Intn(10)]
		if n == 0 {
			return ""
		}
		return strings.Repeat(unit, n/len(unit)+1)[:n]
	}
	if kind == 9 {
		// valid UTF-8, mostly multi-byte, with spaces and sentence breaks: the
		// byte at a split position is often the middle of a rune
		var u []byte
		for len(u) < n {
			switch g.Intn(8) {
			case 0:
				u = append(u, ' ')
			case 1:
				u = append(u, ". "...)
			case 2:
				u = append(u, string(rune(g.Range(0x1f300, 0x1f6ff)))...)
			case 3:
				u = append(u, string(rune(g.Range(0x100, 0x17f))<<8|rune([]int{0x0a, 0x0d, 0x20, 0x2e}[g.Intn(4)]))...)
			default:
				u = append(u, string(rune(g.Range(0xa1, 0x24ff)))...)
			}
		}
		return string(u)
	}
	b := make([]byte, n)
	for i := range b {
		switch kind {
		case 0: // no spaces at all
			b[i] = alnum[g.Intn(len(alnum))]
		case 1: // only spaces
			b[i] = ' '
		case 2: // sentence breaks
			switch g.Intn(9) {
			case 0:
				b[i] = ' '
			case 1:
				b[i] = ".:;,!?\"'"[g.Intn(8)]
			default:
				b[i] = lower[g.Intn(26)]
			}
		case 3: // words
			if g.Intn(6) == 0 {
				b[i] = ' '
			} else {
				b[i] = lower[g.Intn(26)]
			}
		case 4: // any bytes except CR/LF
			c := byte(g.Intn(256))
			if c == '\r' || c == '\n' {
				c = '.'
			}
			b[i] = c
		case 5: // dots only
			b[i] = '.'
		case 6: // ". " repeated
			b[i] = ". "[i%2]
		case 7: // rare spaces
			if g.Intn(40) == 0 {
				b[i] = ' '
			} else {
				b[i] = 'w'
			}
		default:
			b[i] = "ab ,."[g.Intn(5)]
		}
	}
	if kind != 4 && n > 8 && g.Pct(30) {
		// a break exactly at the boundary
		p := L - 3 - g.Intn(3)
		if p > 1 && p < n-1 {
			b[p-1], b[p] = '.', ' '
		}
	}
	return string(b)
}

// sendAfterFault: a write fails part-way through a line (or before its first
// byte), the client is reconnected, and commands are issued on the new
// connection.  Nothing of the line that failed may reach the new connection:
// every line there is the registration or begins with the verb of a call made
// after the reconnect.
func sendAfterFault(e *Env, g G) {
	e.S.Count("fault.write-fails-mid-line-then-reconnect")
	faultAt := g.Range(3, 9)
	short := g.Bool()
	dial := 0
	s := startSession(e, ClientOpts{Nick: "me", Flood: true}, func(l *simnet.Link) {
		dial++
		l.ChunkMode = g.Intn(4)
		if dial == 1 {
			l.WriteErrAtOp = faultAt
			l.ShortWrite = short
		}
	})
	discs := 0
	s.c.HandleFunc(client.DISCONNECTED, func(*client.Conn, *client.Line) { discs++ })
	if !s.connect() {
		return
	}
	first := s.l.ID
	texts := []string{"hello QUIT :bye", "x JOIN #evil", "a PRIVMSG #other :hi", "NICK pwned", "plain text", "tail :QUIT"}
	for k := 0; k < 12 && discs == 0; k++ {
		s.c.Privmsg("#chan", texts[g.S.Choose(len(texts))])
		simrt.Sleep(time.Duration(e.S.Choose(3)) * time.Millisecond)
	}
	if !simrt.BlockFor("send.fault", "DISCONNECTED after the write error", 10*time.Minute, func() bool { return discs > 0 }) {
		e.Violation("harness", "the injected write error did not end the connection\n%s", e.S.TaskDump())
		return
	}
	s.ready = false
	if err := s.c.Connect(); err != nil {
		e.Violation("harness-connect", "reconnect failed: %v", err)
		return
	}
	simrt.BlockFor("send.fault", "welcome on the new connection", time.Hour, func() bool { return s.ready })
	type call struct {
		verb string
		do   func()
	}
	calls := []call{
		{"NICK", func() { s.c.Nick("fresh") }},
		{"JOIN", func() { s.c.Join("#new") }},
		{"PRIVMSG", func() { s.c.Privmsg("#new", "after the reconnect") }},
		{"WHO", func() { s.c.Who("#new") }},
		{"AWAY", func() { s.c.Away("brb") }},
	}
	allowed := map[string]bool{"MARK": true}
	for k := g.Range(1, 4); k > 0; k-- {
		c := calls[g.S.Choose(len(calls))]
		allowed[c.verb] = true
		c.do()
	}
	s.c.Raw("MARK end")
	sawMark := func() bool {
		for i, ln := range s.lines {
			if s.from[i] != first && ln == "MARK end" {
				return true
			}
		}
		return false
	}
	if !simrt.BlockFor("send.fault", "the calls on the new connection to reach the server", 10*time.Minute, sawMark) {
		e.Violation("stall", "commands issued on the new connection did not reach the server\n%s", e.S.TaskDump())
		return
	}
	simrt.Settle(5 * time.Second)
	e.Check()
	for i, ln := range s.lines {
		if s.from[i] == first {
			continue
		}
		verb := ln
		if j := strings.IndexByte(ln, ' '); j >= 0 {
			verb = ln[:j]
		}
		if !allowed[verb] {
			e.Violation("second-command", "after a write error (%d bytes of the failing line accepted=%v) and a reconnect, the new connection carried %q, which is neither the registration nor a command called after the reconnect: bytes of the line that failed on the old connection", faultAt, short, clip(ln))
			return
		}
	}
	s.c.Close()
}

func sendCommands(e *Env) {
	g := G{e.S}
	c11 := e.Prop == "C11"
	if !c11 && g.Pct(12) {
		sendAfterFault(e, g)
		return
	}
	// a quarter of the runs leave flood protection on: the sender then spends most
	// of its time pausing, and calls (and the client's own PONGs) arrive while a
	// line is being held back
	floodProtection := g.Pct(25)
	if floodProtection {
		e.S.Count("probe.commands-under-flood-protection")
	}
	s := startSession(e, g.Knobs(ClientOpts{Nick: "me", Flood: !floodProtection}), func(l *simnet.Link) {
		l.ChunkMode = g.Intn(4)
		l.Window = []int{0, 0, 16, 100, 1000}[g.Intn(5)]
	})
	if !c11 && g.Pct(30) {
		// a server that now and then stops reading for a while, in the middle of
		// whatever line is on its way (longer than a short Config.Timeout): slow
		// is all it is, every line still arrives whole
		e.S.Count("fault.server-stalls-mid-line")
		s.pause = func() {
			if e.S.Choose(6) == 0 {
				simrt.Sleep(time.Duration(1+e.S.Choose(4)) * 700 * time.Millisecond)
			}
		}
	}
	// an application that starts talking before it has connected for the first
	// time: whatever becomes of those calls (the library lets them wait for
	// ever), nothing but whole single commands of their own verb may come of them
	isEarly := func(ln string) bool {
		// (a task may also get its first turn after the connection is up: its call
		// is then an ordinary one; a text that starts with a line break leaves
		// just the verb and the target)
		return strings.HasPrefix(ln, "PRIVMSG #early") || strings.HasPrefix(ln, "NOTICE #early") || strings.HasPrefix(ln, "EARLY") || strings.HasPrefix(ln, "TOPIC #early")
	}
	if !c11 && g.Pct(15) {
		e.S.Count("fault.commands-called-before-the-first-connect")
		for k := g.Range(1, 4); k > 0; k-- {
			text := hostilePool[g.Intn(len(hostilePool))] + g.Str(alnum, 0, 6) + hostilePool[g.Intn(len(hostilePool))]
			if g.Pct(30) {
				text = splitText(g, 450, true)
			}
			kind := g.Intn(4)
			e.S.Spawn(fmt.Sprintf("early-caller%d", k), func() {
				switch kind {
				case 0:
					s.c.Privmsg("#early", text)
				case 1:
					s.c.Notice("#early", text)
				case 2:
					s.c.Raw("EARLY " + text)
				default:
					s.c.Topic("#early", text)
				}
			})
		}
		simrt.Sleep(time.Duration(g.Intn(3)) * time.Second)
	}
	var other *bystander
	if !c11 && g.Pct(15) {
		other = startBystander(e, g)
	}
	if !s.connect() {
		return
	}
	if other != nil && !other.run(40+g.Intn(200)) {
		return
	}
	noise := 0
	if !c11 {
		noise = g.W(2, 1, 1)
	}
	stopNoise := false
	noiseSent := make([]int, noise)
	for i := 0; i < noise; i++ {
		i := i
		e.S.Spawn(fmt.Sprintf("noise%d", i), func() {
			for !stopNoise && noiseSent[i] < 400 {
				s.c.Raw(fmt.Sprintf("NOISE %d.%d", i, noiseSent[i]))
				noiseSent[i]++
				simrt.Sleep(time.Duration(e.S.Choose(3)) * time.Millisecond)
			}
		})
	}
	// inbound traffic meanwhile: the client's automatic PONGs share the queue
	autoPong := map[string]bool{}
	stopPings := false
	if g.Pct(40) {
		e.S.Spawn("server-pinger", func() {
			for k := 0; k < 300 && !stopPings; k++ {
				tok := fmt.Sprintf("srvtok%dz", k)
				autoPong["PONG :"+tok] = true
				s.l.SendLine("PING :" + tok)
				simrt.Sleep(time.Duration(1+e.S.Choose(400)) * time.Millisecond)
			}
		})
	}
	// C11: other goroutines split and send long texts at the same time, to their
	// own targets; a slow server keeps the queue full so that a caller is parked
	// in the middle of its sequence of pieces
	type talk struct {
		target string
		texts  []string
	}
	var talkers []*talk
	talkDone := 0
	if c11 && g.Pct(50) {
		if g.Bool() {
			s.pause = func() { simrt.Sleep(time.Duration(e.S.Choose(30)) * time.Millisecond) }
		}
		for k := g.Range(1, 2); k > 0; k-- {
			tk := &talk{target: fmt.Sprintf("#talk%d", k)}
			for c := g.Range(1, 6); c > 0; c-- {
				n := g.Range(30, 2500)
				b := make([]byte, n)
				for i := range b {
					b[i] = "abcdefghij klm.nop, qrs"[(i*7+c*3+k)%23]
				}
				tk.texts = append(tk.texts, fmt.Sprintf("t%d.c%d|", k, c)+string(b)+"$")
			}
			talkers = append(talkers, tk)
			e.S.Spawn("talker"+tk.target, func() {
				for _, t := range tk.texts {
					if e.S.Choose(2) == 0 {
						s.c.Privmsg(tk.target, t)
					} else {
						s.c.Notice(tk.target, t)
					}
					simrt.Sleep(time.Duration(e.S.Choose(20)) * time.Millisecond)
				}
				talkDone++
			})
		}
	}
	isTalk := func(ln string) bool {
		for _, tk := range talkers {
			if strings.HasPrefix(ln, "PRIVMSG "+tk.target+" :") || strings.HasPrefix(ln, "NOTICE "+tk.target+" :") {
				return true
			}
		}
		return false
	}
	ncalls := g.Range(1, 25)
	pos := 0
	callsDone := false
	if g.Pct(15) {
		// a watchdog of the application that calls Connect although the
		// connection is up: refused, and nothing else happens
		e.S.Count("fault.connect-called-while-connected")
		e.S.Spawn("reconnect-timer", func() {
			for k := 0; k < 6 && !callsDone && !e.S.Failed(); k++ {
				simrt.Sleep(time.Duration(e.S.Choose(60)) * time.Millisecond)
				for i := e.S.Choose(40); i > 0; i-- {
					simrt.Sleep(0)
				}
				if err := s.c.Connect(); err == nil {
					e.Violation("harness", "Connect on a connected client returned nil")
					return
				}
			}
		})
	}
	defer func() { callsDone = true }()
	for k := 0; k < ncalls && !e.S.Failed(); k++ {
		var cc cmdCall
		if c11 {
			idx := []int{13, 14, 15, 16, 17, 18, 20}[g.Intn(7)]
			cc = cmdTable[idx]
		} else {
			cc = cmdTable[g.Intn(len(cmdTable))]
		}
		// SplitLen classes
		sl := []int{-5, 0, 1, 12, 13, 14, 20, 50, 450, 600}[g.Intn(10)]
		s.c.Config().SplitLen = sl
		L := sl
		if L < 13 {
			L = 450
		}
		args := make([]string, 3)
		for i := range args {
			switch {
			case c11 && i == 1:
				args[i] = splitText(g, L, false)
			case c11:
				args[i] = []string{"#chan", "nick", "x", "#" + strings.Repeat("long-channel-name.", 3), "&" + strings.Repeat("c", 200)}[g.W(3, 3, 2, 1, 1)]
				if i == 2 {
					args[i] = []string{"ACTION", "ping", "Version"}[g.Intn(3)]
				}
			case g.Pct(15):
				args[i] = splitText(g, L, true)
			case g.Pct(6):
				// very long, longer than any buffer between the call and the socket
				args[i] = strings.Repeat(g.Str(alnum+" :", 1, 9), 1+g.Range(4200, 9000)/9)
			case g.Pct(10):
				args[i] = strings.Repeat(hostilePool[g.Intn(len(hostilePool))], g.Range(1, 400))
			case g.Pct(10):
				// non-ASCII around a line break: a sanitiser working on runes or
				// on bytes must cut at the same place
				args[i] = wirePayload(g) + hostilePool[g.Intn(len(hostilePool))] + wirePayload(g)
			default:
				args[i] = hostilePool[g.Intn(len(hostilePool))] + g.Str(alnum, 0, 6) + hostilePool[g.Intn(len(hostilePool))]
			}
		}
		if cc.name == "Quit0" {
			s.c.Config().QuitMessage = args[0]
		}
		e.S.Logf("call %s(%q) SplitLen=%d", cc.name, args[:cc.args], sl)
		cc.call(s.c, args)
		// a marker line issued after the call returns: the single output queue is
		// FIFO, so everything the call wrote precedes the marker on the wire
		mark := fmt.Sprintf("MARK %d", k)
		s.c.Raw(mark)
		marked := func() bool {
			for i := pos; i < len(s.lines); i++ {
				if s.lines[i] == mark {
					return true
				}
			}
			return false
		}
		if !simrt.BlockFor("send", "the marker line after the call", 6*time.Hour, marked) {
			e.Violation("stuck", "%s(%s): the lines of the call did not reach the server although it keeps reading\n%s", cc.name, clipq(args[:cc.args]), e.S.TaskDump())
			return
		}
		// attribute: lines up to the marker that are not noise belong to this call
		var mine []string
		for ; pos < len(s.lines); pos++ {
			ln := s.lines[pos]
			if ln == mark {
				pos++
				break
			}
			if strings.HasPrefix(ln, "NOISE ") || autoPong[ln] || isTalk(ln) || isEarly(ln) {
				continue
			}
			mine = append(mine, ln)
		}
		if len(e.Notes) < 6 {
			e.Notef("%s(%s) SplitLen=%d -> %d line(s)", cc.name, clipq(args[:cc.args]), sl, len(mine))
		}
		if c11 {
			checkSplit(e, cc, args, L, mine)
		} else {
			checkVerb(e, cc, args, mine)
		}
	}
	stopNoise = true
	stopPings = true
	if len(talkers) > 0 {
		simrt.BlockFor("send", "talkers", 6*time.Hour, func() bool { return talkDone == len(talkers) })
		s.c.Raw("MARK end")
		endMarked := func() bool {
			for i := len(s.lines) - 1; i >= 0 && i >= len(s.lines)-400; i-- {
				if s.lines[i] == "MARK end" {
					return true
				}
			}
			return false
		}
		if !simrt.BlockFor("send", "the final marker", 6*time.Hour, endMarked) {
			e.Violation("stuck", "the concurrent callers' lines did not all reach the server\n%s", e.S.TaskDump())
			return
		}
	}
	simrt.Settle(5 * time.Second)
	// each talker's texts must come out losslessly too, piece after piece
	for _, tk := range talkers {
		var pieces []string
		for _, ln := range s.lines {
			for _, pre := range []string{"PRIVMSG " + tk.target + " :", "NOTICE " + tk.target + " :"} {
				if strings.HasPrefix(ln, pre) {
					pieces = append(pieces, ln[len(pre):])
				}
			}
		}
		i := 0
		for _, want := range tk.texts {
			var got strings.Builder
			n := 0
			for i < len(pieces) {
				p := pieces[i]
				i++
				n++
				if strings.HasSuffix(p, "$") {
					got.WriteString(p)
					break
				}
				if !strings.HasSuffix(p, "...") {
					e.Violation("no-marker", "concurrent caller %s: piece %q is neither the end of its text nor marked as continued", tk.target, clip(p))
					return
				}
				got.WriteString(p[:len(p)-3])
			}
			e.Check()
			if got.String() != want {
				e.Violation("lossy", "concurrent caller %s: the %d pieces of one call join to %d bytes, the text has %d; first difference at byte %d (pieces of another caller's text?)", tk.target, n, got.Len(), len(want), firstDiff(got.String(), want))
				return
			}
		}
	}
	if !c11 {
		// held-back lines take their time, and so do lines on their way to a
		// server that stalls: wait for the concurrent callers' lines (2 s and more
		// each under flood protection) before the stream is judged
		want := 0
		for _, k := range noiseSent {
			want += k
		}
		simrt.BlockFor("send", "the concurrent callers' lines to be let out by flood protection", time.Duration(want+40)*7*time.Second, func() bool {
			got := 0
			for _, ln := range s.lines {
				if strings.HasPrefix(ln, "NOISE ") {
					got++
				}
			}
			return got >= want
		})
		simrt.Settle(5 * time.Second)
	}
	if !c11 && !e.S.Failed() {
		// the stream is judged up to a last marker: the queue is FIFO, so all that
		// was handed over before it has been written when it arrives (what the
		// client still has to say after it - a late PONG - may be on its way)
		s.c.Raw("MARK final")
		if !simrt.BlockFor("send", "the final marker", 6*time.Hour, func() bool {
			for i := len(s.lines) - 1; i >= 0 && i >= len(s.lines)-400; i-- {
				if s.lines[i] == "MARK final" {
					return true
				}
			}
			return false
		}) {
			e.Violation("stuck", "the last line handed over did not reach the server although it keeps reading\n%s", e.S.TaskDump())
			return
		}
		checkStream(e, s, noiseSent)
	}
	if other != nil && !e.S.Failed() && !other.verify("foreign-line") {
		return
	}
	s.c.Close()
}

func clipq(a []string) string {
	var out []string
	for _, x := range a {
		q := fmt.Sprintf("%q", x)
		if len(q) > 40 {
			q = q[:40] + "...\""
		}
		out = append(out, q)
	}
	return strings.Join(out, ", ")
}

// checkStream: the whole byte stream is CRLF-terminated lines with no CR/LF
// inside, and the noise lines arrived whole, once each, in order.
func checkStream(e *Env, s *session, noiseSent []int) {
	all := string(s.l.AllC2S)
	if i := strings.LastIndex(all, "MARK final\r\n"); i >= 0 {
		all = all[:i+len("MARK final\r\n")]
	}
	e.Check()
	if all != "" && !strings.HasSuffix(all, "\r\n") {
		e.Violation("framing", "the byte stream does not end in CRLF: ...%q", tailStr(all, 40))
	}
	for _, ln := range strings.Split(strings.TrimSuffix(all, "\r\n"), "\r\n") {
		if strings.ContainsAny(ln, "\r\n") {
			e.Violation("framing", "a wire line contains a bare CR or LF: %q", clip(ln))
		}
	}
	next := make([]int, len(noiseSent))
	for _, ln := range s.lines {
		if !strings.HasPrefix(ln, "NOISE ") {
			continue
		}
		var i, k int
		if _, err := fmt.Sscanf(ln, "NOISE %d.%d", &i, &k); err != nil || i >= len(next) || fmt.Sprintf("NOISE %d.%d", i, k) != ln {
			e.Violation("framing", "corrupted concurrent line %q", clip(ln))
			return
		}
		if k != next[i] {
			e.Violation("framing", "concurrent caller %d: line %d arrived where %d was expected", i, k, next[i])
			return
		}
		next[i]++
	}
	for i := range next {
		if next[i] != noiseSent[i] {
			e.Violation("framing", "concurrent caller %d issued %d lines, %d arrived", i, noiseSent[i], next[i])
		}
	}
}

func tailStr(s string, n int) string {
	if len(s) > n {
		return s[len(s)-n:]
	}
	return s
}

func checkVerb(e *Env, cc cmdCall, args, mine []string) {
	for _, ln := range mine {
		e.Check()
		if strings.ContainsAny(ln, "\r\n") {
			e.Violation("crlf-inside", "%s(%s) put a line with CR/LF inside on the wire: %q", cc.name, clipq(args[:cc.args]), clip(ln))
		}
		if cc.name == "Raw" {
			want := args[0]
			if i := strings.IndexAny(want, "\r\n"); i >= 0 {
				want = want[:i]
			}
			if ln != want {
				e.Violation("raw", "Raw(%s) wrote %q, want the argument up to its first CR/LF %q", clipq(args[:1]), clip(ln), clip(want))
			}
			continue
		}
		if ln != cc.verb && !strings.HasPrefix(ln, cc.verb+" ") {
			e.Violation("second-command", "%s(%s) wrote a line that does not begin with %s: %q", cc.name, clipq(args[:cc.args]), cc.verb, clip(ln))
		}
	}
	if len(mine) == 0 {
		e.Violation("nothing-written", "%s(%s) wrote nothing", cc.name, clipq(args[:cc.args]))
	}
}

// checkSplit: C11 on the wire transcript of one call.
func checkSplit(e *Env, cc cmdCall, args []string, L int, mine []string) {
	target, text := args[0], args[1]
	var pre, post string
	switch cc.name {
	case "Privmsg", "Privmsgln", "Privmsgf":
		pre = "PRIVMSG " + target + " :"
	case "Notice":
		pre = "NOTICE " + target + " :"
	case "Ctcp":
		pre, post = "PRIVMSG "+target+" :\x01"+strings.ToUpper(args[2]), "\x01"
	case "CtcpReply":
		pre, post = "NOTICE "+target+" :\x01"+strings.ToUpper(args[2]), "\x01"
	case "Action":
		pre, post = "PRIVMSG "+target+" :\x01ACTION", "\x01"
	}
	var pieces []string
	for _, ln := range mine {
		if !strings.HasPrefix(ln, pre) || !strings.HasSuffix(ln, post) || len(ln) < len(pre)+len(post) {
			e.Violation("framing", "%s to %q: wire line %q does not carry the same verb/target/framing (%q...%q)", cc.name, target, clip(ln), pre, post)
			return
		}
		p := ln[len(pre) : len(ln)-len(post)]
		if post != "" {
			// CTCP framing puts a space before a non-empty piece
			if p != "" {
				if p[0] != ' ' {
					e.Violation("framing", "%s: CTCP piece %q is not separated from the verb by a space", cc.name, clip(p))
					return
				}
				p = p[1:]
			}
		}
		pieces = append(pieces, p)
	}
	e.Check()
	if len(text) <= L {
		if len(pieces) != 1 || pieces[0] != text {
			e.Violation("unsplit-changed", "%s: text of %d bytes <= limit %d must be sent as one unchanged message, got %d piece(s) %s", cc.name, len(text), L, len(pieces), clipq(pieces))
		}
		return
	}
	if len(pieces) < 2 {
		e.Violation("not-split", "%s: text of %d bytes > limit %d was sent as %d message(s)", cc.name, len(text), L, len(pieces))
		return
	}
	var joined strings.Builder
	for i, p := range pieces {
		if len(p) > L {
			e.Violation("piece-too-long", "%s: piece %d is %d bytes, limit %d (text %d bytes)", cc.name, i, len(p), L, len(text))
			return
		}
		if p == "" {
			e.Violation("empty-piece", "%s: piece %d of a split text is empty", cc.name, i)
			return
		}
		if i < len(pieces)-1 {
			if !strings.HasSuffix(p, "...") {
				e.Violation("no-marker", "%s: piece %d (%q) does not end in the continuation marker", cc.name, i, clip(p))
				return
			}
			p = p[:len(p)-3]
			if p == "" {
				e.Violation("empty-piece", "%s: piece %d carries only the marker", cc.name, i)
				return
			}
		}
		joined.WriteString(p)
	}
	if joined.String() != text {
		e.Violation("lossy", "%s: joining the %d pieces without markers gives %d bytes, the text has %d (limit %d); first difference at byte %d", cc.name, len(pieces), joined.Len(), len(text), L, firstDiff(joined.String(), text))
	}
}

func firstDiff(a, b string) int {
	n := len(a)
	if len(b) < n {
		n = len(b)
	}
	for i := 0; i < n; i++ {
		if a[i] != b[i] {
			return i
		}
	}
	return n
}

var _ = sort.Strings
