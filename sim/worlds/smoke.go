package worlds

import (
	"strings"
	"time"

	"github.com/fluffle/goirc/client"

	"verifsim/simnet"
	"verifsim/simrt"
)

// smoke: connect, register, welcome, a few lines each way, Close.  Used by the
// determinism self-test and as a sanity check of the machinery.
func init() {
	register(&World{Name: "smoke", Run: smokeRun, MaxSteps: 100000, MaxSimTime: time.Hour})
}

func smokeRun(e *Env) {
	g := G{e.S}
	n := g.Range(1, 12)
	flood := g.Bool()
	e.LinkPlan = func(l *simnet.Link) { l.ChunkMode = g.Intn(4) }
	got := 0
	e.OnDial = func(l *simnet.Link) {
		e.S.Spawn("server", func() {
			reg, ok := Registration(l, time.Minute)
			if !ok {
				return
			}
			Welcome(l, NickOf(reg))
			for i := 0; i < n; i++ {
				l.SendLine(":bob!b@h PRIVMSG me :hello " + string(rune('a'+i)))
			}
			for {
				ln, ok := l.RecvLine()
				if !ok {
					return
				}
				if strings.HasPrefix(ln, "PRIVMSG bob :re hello") {
					got++
				}
			}
		})
	}
	c := NewClient(ClientOpts{Nick: "me", Flood: flood, Track: g.Bool()})
	disc := false
	c.HandleFunc(client.PRIVMSG, func(c *client.Conn, l *client.Line) { c.Privmsg(l.Nick, "re "+l.Text()) })
	c.HandleFunc(client.DISCONNECTED, func(c *client.Conn, l *client.Line) { disc = true })
	if err := c.Connect(); err != nil {
		e.Violation("connect", "Connect failed: %v", err)
	}
	if !simrt.BlockFor("smoke", "replies", 10*time.Minute, func() bool { return got == n }) {
		e.Violation("replies", "got %d of %d replies", got, n)
	}
	e.Check()
	c.Close()
	if !disc {
		e.Violation("disc", "no DISCONNECTED after Close returned")
	}
	e.Check()
}
