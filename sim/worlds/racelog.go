package worlds

import (
	"fmt"
	"os"
	"runtime"
	"strings"
)

// The memory-model tier (DESIGN.md section 12): the worker binary is built with
// the race detector, the simulator hides its own hand-overs from it, and after
// every run the worker reads what the detector wrote during that run.

type raceReport struct {
	Text   string
	Owners [2]string // file:line of the innermost frame outside GOROOT, per access
	Funcs  [2]string
}

var (
	raceLogOff  int64
	raceLogFile string
)

// raceLogPath finds the detector's log (GORACE log_path=<prefix> writes to
// <prefix>.<pid>).
func raceLogPath(prefix string) string {
	if raceLogFile == "" {
		raceLogFile = fmt.Sprintf("%s.%d", prefix, os.Getpid())
	}
	return raceLogFile
}

// newRaceReports returns the reports appended to the log since the last call.
func newRaceReports(prefix string) []raceReport {
	if prefix == "" {
		return nil
	}
	b, err := os.ReadFile(raceLogPath(prefix))
	if err != nil || int64(len(b)) <= raceLogOff {
		return nil
	}
	fresh := string(b[raceLogOff:])
	// only whole reports: a report ends with a line of '='
	end := strings.LastIndex(fresh, "==================\n")
	if end < 0 {
		return nil
	}
	end += len("==================\n")
	raceLogOff += int64(end)
	return parseRaceReports(fresh[:end])
}

func parseRaceReports(txt string) []raceReport {
	var out []raceReport
	goroot := runtime.GOROOT()
	for _, blk := range strings.Split(txt, "==================\n") {
		if !strings.Contains(blk, "WARNING: DATA RACE") {
			continue
		}
		r := raceReport{Text: strings.TrimSpace(blk)}
		k := 0
		for _, sec := range strings.Split(blk, "\n\n") {
			lines := strings.Split(strings.TrimLeft(sec, "\n"), "\n")
			for len(lines) > 0 && strings.HasPrefix(lines[0], "WARNING") {
				lines = lines[1:]
			}
			if len(lines) == 0 {
				continue
			}
			h := lines[0]
			isAccess := (strings.HasPrefix(h, "Read at ") || strings.HasPrefix(h, "Write at ") || strings.HasPrefix(h, "Previous read at ") ||
				strings.HasPrefix(h, "Previous write at ") || strings.HasPrefix(h, "Atomic ") || strings.HasPrefix(h, "Previous atomic "))
			if !isAccess || k >= 2 {
				continue
			}
			fn := ""
			for _, l := range lines[1:] {
				if strings.HasPrefix(l, "      ") {
					file := strings.TrimSpace(l)
					if i := strings.LastIndex(file, " +0x"); i >= 0 {
						file = file[:i]
					}
					if goroot != "" && strings.HasPrefix(file, goroot) {
						continue
					}
					r.Owners[k] = file
					r.Funcs[k] = fn
					break
				}
				fn = strings.TrimSpace(l)
			}
			k++
		}
		out = append(out, r)
	}
	return out
}

// raceVerdict picks the first report both of whose accesses are made by code of
// the packages under test (pkgs: path fragments such as "/goirc/state/").
// Reports with an access elsewhere (the standard library on behalf of the
// harness, or a stack the detector could not restore) are counted, not judged.
func raceVerdict(reps []raceReport, pkgs []string) (hit *raceReport, other int) {
	in := func(file string) bool {
		for _, p := range pkgs {
			if p != "" && strings.Contains(file, p) {
				return true
			}
		}
		return false
	}
	for i := range reps {
		r := &reps[i]
		if in(r.Owners[0]) && in(r.Owners[1]) {
			if hit == nil {
				hit = r
			}
		} else {
			other++
		}
	}
	return
}
