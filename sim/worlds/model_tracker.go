package worlds

import (
	"fmt"
	"sort"
	"strconv"
	"strings"

	"github.com/fluffle/goirc/state"
)

// mTracker is the plain relational model of the state tracker (C12): a set of
// nicks and a set of channels with their attributes plus a membership relation
// carrying per-channel privileges.  Written from the property statement.
type mTracker struct {
	me    string
	nicks map[string]*mNick
	chans map[string]*mChan
	mem   map[[2]string]*state.ChanPrivs // (channel, nick)
}

type mNick struct {
	ident, host, name string
	modes             state.NickMode
}

type mChan struct {
	topic string
	modes state.ChanMode
}

func newModel(me string) *mTracker {
	m := &mTracker{me: me, nicks: map[string]*mNick{}, chans: map[string]*mChan{}, mem: map[[2]string]*state.ChanPrivs{}}
	m.nicks[me] = &mNick{}
	return m
}

func (m *mTracker) clone() *mTracker {
	c := &mTracker{me: m.me, nicks: map[string]*mNick{}, chans: map[string]*mChan{}, mem: map[[2]string]*state.ChanPrivs{}}
	for k, v := range m.nicks {
		x := *v
		c.nicks[k] = &x
	}
	for k, v := range m.chans {
		x := *v
		c.chans[k] = &x
	}
	for k, v := range m.mem {
		x := *v
		c.mem[k] = &x
	}
	return c
}

func (m *mTracker) nickSnap(n string) *state.Nick {
	nk, ok := m.nicks[n]
	if !ok {
		return nil
	}
	md := nk.modes
	s := &state.Nick{Nick: n, Ident: nk.ident, Host: nk.host, Name: nk.name, Modes: &md, Channels: map[string]*state.ChanPrivs{}}
	for k, cp := range m.mem {
		if k[1] == n {
			c := *cp
			s.Channels[k[0]] = &c
		}
	}
	return s
}

func (m *mTracker) chanSnap(c string) *state.Channel {
	ch, ok := m.chans[c]
	if !ok {
		return nil
	}
	md := ch.modes
	s := &state.Channel{Name: c, Topic: ch.topic, Modes: &md, Nicks: map[string]*state.ChanPrivs{}}
	for k, cp := range m.mem {
		if k[0] == c {
			x := *cp
			s.Nicks[k[1]] = &x
		}
	}
	return s
}

func (m *mTracker) nickChans(n string) int {
	c := 0
	for k := range m.mem {
		if k[1] == n {
			c++
		}
	}
	return c
}

func (m *mTracker) dropNick(n string) {
	delete(m.nicks, n)
	for k := range m.mem {
		if k[1] == n {
			delete(m.mem, k)
		}
	}
}

// forgetChannel: the channel goes, and every other nick left sharing no
// channel goes with it (never the client).
func (m *mTracker) forgetChannel(c string) {
	delete(m.chans, c)
	var members []string
	for k := range m.mem {
		if k[0] == c {
			members = append(members, k[1])
		}
	}
	for _, n := range members {
		delete(m.mem, [2]string{c, n})
		if n != m.me && m.nickChans(n) == 0 {
			m.dropNick(n)
		}
	}
}

func (m *mTracker) NewNick(n string) *state.Nick {
	if n == "" {
		return nil
	}
	if _, ok := m.nicks[n]; ok {
		return nil
	}
	m.nicks[n] = &mNick{}
	return m.nickSnap(n)
}

func (m *mTracker) GetNick(n string) *state.Nick { return m.nickSnap(n) }

func (m *mTracker) ReNick(old, neu string) *state.Nick {
	nk, ok := m.nicks[old]
	if !ok {
		return nil
	}
	if _, taken := m.nicks[neu]; taken {
		return nil
	}
	delete(m.nicks, old)
	m.nicks[neu] = nk
	for k, cp := range m.mem {
		if k[1] == old {
			delete(m.mem, k)
			m.mem[[2]string{k[0], neu}] = cp
		}
	}
	if m.me == old {
		m.me = neu
	}
	return m.nickSnap(neu)
}

func (m *mTracker) DelNick(n string) *state.Nick {
	if _, ok := m.nicks[n]; !ok || n == m.me {
		return nil
	}
	s := m.nickSnap(n)
	m.dropNick(n)
	// the snapshot is that of the deleted nick: it is on no channel any more
	s.Channels = map[string]*state.ChanPrivs{}
	return s
}

func (m *mTracker) NickInfo(n, ident, host, name string) *state.Nick {
	nk, ok := m.nicks[n]
	if !ok {
		return nil
	}
	nk.ident, nk.host, nk.name = ident, host, name
	return m.nickSnap(n)
}

func (m *mTracker) NickModes(n, modes string) *state.Nick {
	nk, ok := m.nicks[n]
	if !ok {
		return nil
	}
	on := false
	for i := 0; i < len(modes); i++ {
		switch modes[i] {
		case '+':
			on = true
		case '-':
			on = false
		case 'B':
			nk.modes.Bot = on
		case 'i':
			nk.modes.Invisible = on
		case 'o':
			nk.modes.Oper = on
		case 'w':
			nk.modes.WallOps = on
		case 'x':
			nk.modes.HiddenHost = on
		case 'z':
			nk.modes.SSL = on
		}
	}
	return m.nickSnap(n)
}

func (m *mTracker) NewChannel(c string) *state.Channel {
	if c == "" {
		return nil
	}
	if _, ok := m.chans[c]; ok {
		return nil
	}
	m.chans[c] = &mChan{}
	return m.chanSnap(c)
}

func (m *mTracker) GetChannel(c string) *state.Channel { return m.chanSnap(c) }

func (m *mTracker) DelChannel(c string) *state.Channel {
	if _, ok := m.chans[c]; !ok {
		return nil
	}
	s := m.chanSnap(c)
	m.forgetChannel(c)
	// the snapshot is that of the deleted channel: nobody is on it any more
	s.Nicks = map[string]*state.ChanPrivs{}
	return s
}

func (m *mTracker) Topic(c, t string) *state.Channel {
	ch, ok := m.chans[c]
	if !ok {
		return nil
	}
	ch.topic = t
	return m.chanSnap(c)
}

func (m *mTracker) ChannelModes(c, modes string, args ...string) *state.Channel {
	ch, ok := m.chans[c]
	if !ok {
		return nil
	}
	on := false
	for i := 0; i < len(modes); i++ {
		switch x := modes[i]; x {
		case '+':
			on = true
		case '-':
			on = false
		case 'i':
			ch.modes.InviteOnly = on
		case 'm':
			ch.modes.Moderated = on
		case 'n':
			ch.modes.NoExternalMsg = on
		case 'p':
			ch.modes.Private = on
		case 'r':
			ch.modes.Registered = on
		case 's':
			ch.modes.Secret = on
		case 't':
			ch.modes.ProtectedTopic = on
		case 'z':
			ch.modes.SSLOnly = on
		case 'Z':
			ch.modes.AllSSL = on
		case 'O':
			ch.modes.OperOnly = on
		case 'k':
			if on && len(args) > 0 {
				ch.modes.Key, args = args[0], args[1:]
			} else if !on {
				ch.modes.Key = ""
			}
		case 'l':
			if on && len(args) > 0 {
				ch.modes.Limit, _ = strconv.Atoi(args[0])
				args = args[1:]
			} else if !on {
				ch.modes.Limit = 0
			}
		case 'b', 'e', 'I':
			// list modes (ban, exception, invite mask) are not part of the tracked
			// state, but set or removed they come with a mask
			if len(args) > 0 {
				args = args[1:]
			}
		case 'q', 'a', 'o', 'h', 'v':
			if len(args) > 0 {
				if cp, ok := m.mem[[2]string{c, args[0]}]; ok {
					switch x {
					case 'q':
						cp.Owner = on
					case 'a':
						cp.Admin = on
					case 'o':
						cp.Op = on
					case 'h':
						cp.HalfOp = on
					case 'v':
						cp.Voice = on
					}
					args = args[1:]
				}
				// a privilege change for a nick not on the channel: which
				// argument it consumes is unspecified; never generated with
				// further argument-taking letters behind it
			}
		}
	}
	return m.chanSnap(c)
}

func (m *mTracker) Me() *state.Nick { return m.nickSnap(m.me) }

func (m *mTracker) IsOn(c, n string) (*state.ChanPrivs, bool) {
	cp, ok := m.mem[[2]string{c, n}]
	if !ok {
		return nil, false
	}
	x := *cp
	return &x, true
}

func (m *mTracker) Associate(c, n string) *state.ChanPrivs {
	if _, ok := m.chans[c]; !ok {
		return nil
	}
	if _, ok := m.nicks[n]; !ok {
		return nil
	}
	if _, ok := m.mem[[2]string{c, n}]; ok {
		return nil
	}
	m.mem[[2]string{c, n}] = &state.ChanPrivs{}
	return &state.ChanPrivs{}
}

func (m *mTracker) Dissociate(c, n string) {
	if _, ok := m.chans[c]; !ok {
		return
	}
	if _, ok := m.nicks[n]; !ok {
		return
	}
	if _, ok := m.mem[[2]string{c, n}]; !ok {
		return
	}
	if n == m.me {
		m.forgetChannel(c)
		return
	}
	delete(m.mem, [2]string{c, n})
	if m.nickChans(n) == 0 {
		m.dropNick(n)
	}
}

func (m *mTracker) Wipe() {
	for _, c := range sortedKeys(m.chans) {
		if _, ok := m.chans[c]; ok {
			m.forgetChannel(c)
		}
	}
}

// ---- canonical encodings ----------------------------------------------------

func encPrivs(cp *state.ChanPrivs) string {
	if cp == nil {
		return "nil"
	}
	return fmt.Sprintf("%v%v%v%v%v", b2i(cp.Owner), b2i(cp.Admin), b2i(cp.Op), b2i(cp.HalfOp), b2i(cp.Voice))
}

func b2i(b bool) int {
	if b {
		return 1
	}
	return 0
}

func encNick(n *state.Nick, withChans bool) string {
	if n == nil {
		return "nil"
	}
	var b strings.Builder
	fmt.Fprintf(&b, "N{%q %q %q %q ", n.Nick, n.Ident, n.Host, n.Name)
	if n.Modes == nil {
		b.WriteString("modes=nil")
	} else {
		fmt.Fprintf(&b, "%+v", *n.Modes)
	}
	if withChans {
		ks := make([]string, 0, len(n.Channels))
		for k := range n.Channels {
			ks = append(ks, k)
		}
		sort.Strings(ks)
		for _, k := range ks {
			fmt.Fprintf(&b, " %q:%s", k, encPrivs(n.Channels[k]))
		}
		if n.Channels == nil {
			b.WriteString(" chans=nil")
		}
	}
	b.WriteString("}")
	return b.String()
}

func encChan(c *state.Channel, withNicks bool) string {
	if c == nil {
		return "nil"
	}
	var b strings.Builder
	fmt.Fprintf(&b, "C{%q %q ", c.Name, c.Topic)
	if c.Modes == nil {
		b.WriteString("modes=nil")
	} else {
		fmt.Fprintf(&b, "%+v", *c.Modes)
	}
	if withNicks {
		ks := make([]string, 0, len(c.Nicks))
		for k := range c.Nicks {
			ks = append(ks, k)
		}
		sort.Strings(ks)
		for _, k := range ks {
			fmt.Fprintf(&b, " %q:%s", k, encPrivs(c.Nicks[k]))
		}
		if c.Nicks == nil {
			b.WriteString(" nicks=nil")
		}
	}
	b.WriteString("}")
	return b.String()
}

// encode gives the canonical encoding of the whole model state.
func (m *mTracker) encode() string {
	var b strings.Builder
	b.WriteString("me=" + strconv.Quote(m.me) + ";")
	for _, n := range sortedKeys(m.nicks) {
		b.WriteString(encNick(m.nickSnap(n), true) + ";")
	}
	for _, c := range sortedKeys(m.chans) {
		b.WriteString(encChan(m.chanSnap(c), true) + ";")
	}
	return b.String()
}

// ---- operations as data -------------------------------------------------------

type tOp struct {
	Kind string
	A    []string
}

func (o tOp) String() string { return o.Kind + "(" + strings.Join(quoteAll(o.A), ", ") + ")" }

func quoteAll(a []string) []string {
	out := make([]string, len(a))
	for i, x := range a {
		out[i] = strconv.Quote(x)
	}
	return out
}

// applyOp runs op on any Tracker-shaped target and returns the canonical
// encoding of the result plus the raw returned values (for aliasing checks).
type trackerLike interface {
	NewNick(string) *state.Nick
	GetNick(string) *state.Nick
	ReNick(string, string) *state.Nick
	DelNick(string) *state.Nick
	NickInfo(string, string, string, string) *state.Nick
	NickModes(string, string) *state.Nick
	NewChannel(string) *state.Channel
	GetChannel(string) *state.Channel
	DelChannel(string) *state.Channel
	Topic(string, string) *state.Channel
	ChannelModes(string, string, ...string) *state.Channel
	Me() *state.Nick
	IsOn(string, string) (*state.ChanPrivs, bool)
	Associate(string, string) *state.ChanPrivs
	Dissociate(string, string)
	Wipe()
	String() string
}

// String gives the model's state in the layout of the tracker's own dump, put
// together from the public snapshot types' String methods.
func (m *mTracker) String() string {
	str := "GoIRC Channels\n--------------\n\n"
	for _, c := range sortedKeys(m.chans) {
		str += m.chanSnap(c).String() + "\n"
	}
	str += "GoIRC NickNames\n---------------\n\n"
	for _, n := range sortedKeys(m.nicks) {
		if n != m.me {
			str += m.nickSnap(n).String() + "\n"
		}
	}
	return str
}

// canonDump orders the blocks of a tracker dump, and the member lines inside
// each block (the tracker prints them in map order).
func canonDump(d string) string {
	var blocks [][]string
	for _, ln := range strings.Split(d, "\n") {
		switch {
		case strings.HasPrefix(ln, "Channel: ") || strings.HasPrefix(ln, "Nick: "):
			blocks = append(blocks, []string{ln})
		case ln == "" || strings.HasPrefix(ln, "GoIRC ") || strings.HasPrefix(ln, "---"):
		case len(blocks) > 0:
			blocks[len(blocks)-1] = append(blocks[len(blocks)-1], ln)
		default:
			blocks = append(blocks, []string{"?" + ln})
		}
	}
	var out []string
	for _, b := range blocks {
		var head, mem []string
		for _, ln := range b {
			if strings.HasPrefix(ln, "\t\t") {
				mem = append(mem, ln)
			} else {
				head = append(head, ln)
			}
		}
		sort.Strings(mem)
		out = append(out, strings.Join(append(head, mem...), "|"))
	}
	sort.Strings(out)
	return strings.Join(out, "\n")
}

func applyOp(t trackerLike, o tOp) (string, interface{}) {
	a := o.A
	switch o.Kind {
	case "NewNick":
		r := t.NewNick(a[0])
		return encNick(r, true), r
	case "GetNick":
		r := t.GetNick(a[0])
		return encNick(r, true), r
	case "ReNick":
		r := t.ReNick(a[0], a[1])
		return encNick(r, true), r
	case "DelNick":
		r := t.DelNick(a[0])
		return encNick(r, true), r // the snapshot of a deleted nick: all its memberships are gone
	case "NickInfo":
		r := t.NickInfo(a[0], a[1], a[2], a[3])
		return encNick(r, true), r
	case "NickModes":
		r := t.NickModes(a[0], a[1])
		return encNick(r, true), r
	case "NewChannel":
		r := t.NewChannel(a[0])
		return encChan(r, true), r
	case "GetChannel":
		r := t.GetChannel(a[0])
		return encChan(r, true), r
	case "DelChannel":
		r := t.DelChannel(a[0])
		return encChan(r, true), r
	case "Topic":
		r := t.Topic(a[0], a[1])
		return encChan(r, true), r
	case "ChannelModes":
		r := t.ChannelModes(a[0], a[1], a[2:]...)
		return encChan(r, true), r
	case "Me":
		r := t.Me()
		return encNick(r, true), r
	case "IsOn":
		r, ok := t.IsOn(a[0], a[1])
		return fmt.Sprintf("%s,%v", encPrivs(r), ok), r
	case "Associate":
		r := t.Associate(a[0], a[1])
		return encPrivs(r), r
	case "Dissociate":
		t.Dissociate(a[0], a[1])
		return "-", nil
	case "Wipe":
		t.Wipe()
		return "-", nil
	case "String":
		return canonDump(t.String()), nil
	}
	panic("unknown op " + o.Kind)
}

// sweep compares every query over the universe with the model; returns the
// first difference.
func sweep(t trackerLike, m *mTracker, nicks, chans []string) string {
	if g, w := encNick(t.Me(), true), encNick(m.Me(), true); g != w {
		return fmt.Sprintf("Me() = %s, model %s", g, w)
	}
	for _, n := range nicks {
		if g, w := encNick(t.GetNick(n), true), encNick(m.GetNick(n), true); g != w {
			return fmt.Sprintf("GetNick(%q) = %s, model %s", n, g, w)
		}
	}
	for _, c := range chans {
		if g, w := encChan(t.GetChannel(c), true), encChan(m.GetChannel(c), true); g != w {
			return fmt.Sprintf("GetChannel(%q) = %s, model %s", c, g, w)
		}
		for _, n := range nicks {
			gp, gok := t.IsOn(c, n)
			wp, wok := m.IsOn(c, n)
			if gok != wok || encPrivs(gp) != encPrivs(wp) {
				return fmt.Sprintf("IsOn(%q, %q) = %s,%v, model %s,%v", c, n, encPrivs(gp), gok, encPrivs(wp), wok)
			}
		}
	}
	return ""
}
