package simrt

import "math/bits"

// pcg is math/rand/v2's PCG-DXSM generator and its IntN, copied so that the
// generator's state lives in this package: the memory-model tier compiles the
// simulator without race instrumentation, and the standard library's copy,
// which is instrumented, would fill the detector's log with reports about the
// simulator's own generator.  pcg_test.go holds the two to the same stream.
type pcg struct{ hi, lo uint64 }

func newPCG(seed1, seed2 uint64) *pcg { return &pcg{seed1, seed2} }

func (p *pcg) next() (hi, lo uint64) {
	const (
		mulHi = 2549297995355413924
		mulLo = 4865540595714422341
		incHi = 6364136223846793005
		incLo = 1442695040888963407
	)
	hi, lo = bits.Mul64(p.lo, mulLo)
	hi += p.hi*mulLo + p.lo*mulHi
	lo, c := bits.Add64(lo, incLo, 0)
	hi, _ = bits.Add64(hi, incHi, c)
	p.lo = lo
	p.hi = hi
	return hi, lo
}

func (p *pcg) Uint64() uint64 {
	hi, lo := p.next()
	const cheapMul = 0xda942042e4dd58b5
	hi ^= hi >> 32
	hi *= cheapMul
	hi ^= hi >> 48
	hi *= (lo | 1)
	return hi
}

func (p *pcg) uint64n(n uint64) uint64 {
	if n&(n-1) == 0 {
		return p.Uint64() & (n - 1)
	}
	hi, lo := bits.Mul64(p.Uint64(), n)
	if lo < n {
		thresh := -n % n
		for lo < thresh {
			hi, lo = bits.Mul64(p.Uint64(), n)
		}
	}
	return hi
}

// IntN is (*rand.Rand).IntN on a 64-bit platform.
func (p *pcg) IntN(n int) int {
	if n <= 0 {
		panic("invalid argument to IntN")
	}
	return int(p.uint64n(uint64(n)))
}
