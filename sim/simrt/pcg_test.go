package simrt

import (
	"math/rand/v2"
	"testing"
)

func TestPCGMatchesStandardLibrary(t *testing.T) {
	for seed := uint64(0); seed < 50; seed++ {
		a := newPCG(seed*0x9e3779b97f4a7c15+seed, 0x9e3779b97f4a7c15)
		b := rand.New(rand.NewPCG(seed*0x9e3779b97f4a7c15+seed, 0x9e3779b97f4a7c15))
		for i := 0; i < 20000; i++ {
			n := 1 + int((uint64(i)*2654435761+seed)%uint64(1+i*i%100000+i%7))
			if i%97 == 0 {
				n = 1 << uint(i%40)
			}
			if x, y := a.IntN(n), b.IntN(n); x != y {
				t.Fatalf("seed %d draw %d IntN(%d): %d vs %d", seed, i, n, x, y)
			}
		}
	}
}
