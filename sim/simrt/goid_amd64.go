package simrt

import (
	"runtime"
	"unsafe"
)

// Task lookup needs the goroutine id at every Yield.  runtime.Stack costs a
// full traceback (42% of a worker's CPU in a profile); instead read the goid
// field of the runtime's g directly.  Its offset is not hard-coded: it is found
// at start-up by comparing candidates against the id parsed from runtime.Stack
// on two goroutines, and if no unique offset is found the slow path stays.
func getg() uintptr

var goidOffset uintptr // 0 = not calibrated

func slowGoid() uint64 {
	var buf [48]byte
	n := runtime.Stack(buf[:], false)
	var id uint64
	for i := 10; i < n; i++ {
		c := buf[i]
		if c < '0' || c > '9' {
			break
		}
		id = id*10 + uint64(c-'0')
	}
	return id
}

func candidates() (uint64, map[uintptr]bool) {
	id := slowGoid()
	g := getg()
	m := map[uintptr]bool{}
	for off := uintptr(8); off < 512; off += 8 {
		if *(*uint64)(unsafe.Pointer(g + off)) == id {
			m[off] = true
		}
	}
	return id, m
}

func init() {
	_, a := candidates()
	ch := make(chan map[uintptr]bool)
	go func() { _, b := candidates(); ch <- b }()
	b := <-ch
	ch2 := make(chan map[uintptr]bool)
	go func() { _, c := candidates(); ch2 <- c }()
	c := <-ch2
	var found []uintptr
	for off := range a {
		if b[off] && c[off] {
			found = append(found, off)
		}
	}
	if len(found) == 1 {
		goidOffset = found[0]
	}
}

func goid() uint64 {
	if goidOffset != 0 {
		return *(*uint64)(unsafe.Pointer(getg() + goidOffset))
	}
	return slowGoid()
}
