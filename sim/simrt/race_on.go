//go:build race

package simrt

import (
	"runtime"
	"unsafe"
)

// RaceEnabled reports whether the binary was built with the race detector
// (the memory-model tier, DESIGN.md section 12).
const RaceEnabled = true

// Under the race detector the token that serialises tasks must stay invisible:
// every hand-over goes through a channel and a mutex of the scheduler, and the
// detector would take each of them for synchronisation of the code under test,
// ordering everything.  raceOff/raceOn bracket the scheduler's own
// synchronisation (the detector ignores synchronisation events of a goroutine
// between them); the simulated sync primitives then announce exactly the edges
// their real counterparts create.
func raceOff() { runtime.RaceDisable() }
func raceOn()  { runtime.RaceEnable() }

func raceAcquire(p unsafe.Pointer)      { runtime.RaceAcquire(p) }
func raceRelease(p unsafe.Pointer)      { runtime.RaceRelease(p) }
func raceReleaseMerge(p unsafe.Pointer) { runtime.RaceReleaseMerge(p) }
