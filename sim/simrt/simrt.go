// Package simrt is the deterministic scheduler the instrumented goirc packages
// and the harness run under.
//
// One run executes inside one testing/synctest bubble.  Library and harness
// goroutines are tasks; exactly one task holds the token at a time.  The root
// goroutine of the bubble is the scheduler: it waits for quiescence
// (synctest.Wait), collects the parked and enabled tasks, lets the choice
// stream pick one, resumes it.  Time is synctest's fake clock.  Every random
// decision of a run goes through Sim.Choose on one of two recorded vectors
// ("plan": drawn by the world up front; "run": drawn while the run proceeds),
// so (tree, plan vector, run vector) determines the execution.
package simrt

import (
	"fmt"
	"hash/fnv"
	"runtime"
	"strings"
	"sync"
	"sync/atomic"
	"testing"
	"testing/synctest"
	"time"
	"unsafe"
)

// ---------------------------------------------------------------------------
// tasks

type Task struct {
	ID      string
	Origin  string // site of the go statement (library) or "harness"
	Lib     bool   // spawned by an instrumented go statement
	idx     int
	goid    uint64
	wake    chan struct{}
	spawned int

	// guarded by Sim.mu
	parked   bool
	done     bool
	site     string
	what     string // human description of what it is blocked on
	pred     func() bool
	deadline time.Time
	idle     bool
	lastSite string
	exiting  bool
	crashed  bool
	prio     int
}

func (t *Task) String() string { return t.ID }

// Done reports whether the task's function has returned (or crashed).
func (t *Task) Done() bool { return t.done }

// ---------------------------------------------------------------------------
// choice streams

type stream struct {
	replay []int32
	useRep bool
	pos    int
	rec    []int32
}

func (st *stream) draw(n int, gen func() int) int {
	if n <= 1 {
		return 0
	}
	var v int
	if st.useRep {
		if st.pos < len(st.replay) {
			v = int(st.replay[st.pos])
			if v < 0 {
				v = -v
			}
			v %= n
		}
		st.pos++
	} else {
		v = gen()
		if v < 0 || v >= n {
			panic(fmt.Sprintf("simrt: generator returned %d for n=%d", v, n))
		}
	}
	st.rec = append(st.rec, int32(v))
	return v
}

// ---------------------------------------------------------------------------
// configuration and result

type Config struct {
	Seed       uint64
	Replay     bool
	PlanVec    []int32
	RunVec     []int32
	MaxSteps   int
	MaxSimTime time.Duration
	Trace      bool // keep a textual event log
	Strategy   int  // -1: derive from seed
}

type Failure struct {
	Class string
	Msg   string
}

type Result struct {
	Verdict   string // ok | violation | inconclusive
	Class     string
	Msg       string
	Steps     int
	SimTime   time.Duration
	PlanVec   []int32
	RunVec    []int32
	SchedHash uint64
	LogHash   uint64
	Trace     []string
	Counters  map[string]int
	Strategy  string
	Preempts  int
	Tasks     int
	Leftover  int // goroutines that could not be unwound at the end
	Info      map[string]string
}

// ---------------------------------------------------------------------------
// the simulator

type Sim struct {
	cfg Config
	mu  sync.Mutex // guards task bookkeeping; never held while blocked

	byGoid   map[uint64]*Task
	all      []*Task
	active   []*Task // tasks that have not finished, in creation order
	cur      *Task
	main     *Task
	wakeCh   chan struct{}
	rootGoid uint64
	joinTok  int64 // address used as a synchronisation token for the race detector

	plan, run stream
	rng       *pcg

	start    time.Time
	elapsed  time.Duration
	steps    int
	preempts int
	stopping atomic.Bool
	live     atomic.Int32 // tasks that have not finished
	fail     *Failure
	inconcl  string

	schedHash uint64
	logHash   uint64
	trace     []string
	seq       uint64

	// counters and info are association lists, not maps: the runtime reports
	// map accesses to the race detector even from packages compiled without
	// it, and the memory-model tier wants a quiet log
	counters []counter
	info     [][2]string

	// strategy state
	strat     int
	stickyPct int
	pctPoints map[int]bool
	pctLow    int

	// AllowCrash: escaped panics of library tasks are recorded as events but
	// do not fail the run (the world decides).
	OnCrash func(t *Task, val interface{}, stack string) bool
}

var current atomic.Pointer[Sim]

// Cur returns the simulation running in this process, or nil.
func Cur() *Sim { return current.Load() }

const (
	stratUniform = iota
	stratSticky50
	stratSticky80
	stratSticky95
	stratNonPreempt
	stratPCT1
	stratPCT2
	stratPCT3
	numStrats
)

var stratNames = []string{"uniform", "sticky50", "sticky80", "sticky95", "nonpreemptive", "pct1", "pct2", "pct3"}

func newSim(cfg Config) *Sim {
	if cfg.MaxSteps == 0 {
		cfg.MaxSteps = 200000
	}
	if cfg.MaxSimTime == 0 {
		cfg.MaxSimTime = 12 * time.Hour
	}
	s := &Sim{
		cfg:    cfg,
		byGoid: map[uint64]*Task{},
		rng:    newPCG(cfg.Seed, 0x9e3779b97f4a7c15),
	}
	s.plan = stream{replay: cfg.PlanVec, useRep: cfg.Replay}
	s.run = stream{replay: cfg.RunVec, useRep: cfg.Replay}
	s.schedHash = 1469598103934665603
	s.logHash = 1469598103934665603
	if cfg.Strategy >= 0 && cfg.Strategy < numStrats {
		s.strat = cfg.Strategy
	} else {
		s.strat = int(s.rng.IntN(numStrats))
	}
	switch s.strat {
	case stratSticky50:
		s.stickyPct = 50
	case stratSticky80:
		s.stickyPct = 80
	case stratSticky95:
		s.stickyPct = 95
	case stratPCT1, stratPCT2, stratPCT3:
		d := s.strat - stratPCT1 + 1
		s.pctPoints = map[int]bool{}
		for i := 0; i < d; i++ {
			// change points within the typical length of a run; runs are
			// short (hundreds to a few thousand steps)
			span := 200 << uint(s.rng.IntN(5))
			s.pctPoints[s.rng.IntN(span)] = true
		}
	}
	return s
}

// Run executes body as the main task of a fresh simulation inside a synctest
// bubble and returns what happened.
func Run(t *testing.T, cfg Config, body func(s *Sim)) *Result {
	s := newSim(cfg)
	bubble := ""
	bubbleRun := func() {
		defer func() {
			if r := recover(); r != nil {
				bubble = fmt.Sprint(r)
			}
		}()
		synctest.Test(t, func(t *testing.T) { s.root(body) })
	}
	if RaceEnabled {
		// a report of the race detector makes the testing package fail the bubble's
		// test, and synctest.Test then ends the calling goroutine (FailNow): give
		// it one of its own, the worker goes on and reads the report itself
		fin := make(chan struct{})
		go func() {
			defer close(fin)
			bubbleRun()
		}()
		<-fin
	} else {
		bubbleRun()
	}
	res := s.result()
	if bubble != "" {
		if strings.Contains(bubble, "blocked goroutines remain") || strings.Contains(bubble, "deadlock") {
			res.Leftover = 1
		} else if res.Verdict == "ok" {
			res.Verdict = "inconclusive"
			res.Msg = "bubble panic: " + bubble
		}
	}
	return res
}

func (s *Sim) result() *Result {
	r := &Result{
		Verdict:   "ok",
		Steps:     s.steps,
		SimTime:   s.elapsed,
		PlanVec:   s.plan.rec,
		RunVec:    s.run.rec,
		SchedHash: s.schedHash,
		LogHash:   s.logHash,
		Trace:     s.trace,
		Counters:  map[string]int{},
		Strategy:  stratNames[s.strat],
		Preempts:  s.preempts,
		Tasks:     len(s.all),
		Info:      map[string]string{},
	}
	for _, c := range s.counters {
		r.Counters[c.name] = c.n
	}
	for _, kv := range s.info {
		r.Info[kv[0]] = kv[1]
	}
	if s.fail != nil {
		r.Verdict = "violation"
		r.Class = s.fail.Class
		r.Msg = s.fail.Msg
	} else if s.inconcl != "" {
		r.Verdict = "inconclusive"
		r.Msg = s.inconcl
	}
	return r
}

func (s *Sim) root(body func(*Sim)) {
	// the scheduler's own goroutine never synchronises anything as far as the
	// race detector is concerned (see race_on.go)
	raceOff()
	defer raceOn()
	current.Store(s)
	defer current.Store(nil)
	s.wakeCh = make(chan struct{}, 1) // must be created inside the bubble
	s.rootGoid = goid()
	s.start = time.Now()
	s.main = s.newTask("main", "harness", false)
	raceOn()
	s.startTask(s.main, func() { body(s) })
	raceOff()
	s.loop()
	s.elapsedSnap()
	s.shutdown()
	// every task of this run has ended: what they did happens-before whatever the
	// worker's goroutine starts next (the next run).  Without this edge package-
	// level state of the code under test, touched in two consecutive runs, is
	// reported as a race between them - a report no single run can reproduce
	raceOn()
	raceAcquire(unsafe.Pointer(&s.joinTok))
	raceOff()
}

var zeroTime time.Time

func (s *Sim) elapsedSnap() { s.elapsed = time.Since(s.start) }

// elapsed is stored separately because result() runs outside the bubble.
func (s *Sim) Now() time.Duration { return time.Since(s.start) }

func (s *Sim) loop() {
	horizonHits := 0
	var spinAt time.Time
	spin := map[*Task]int{}
	spinLimit := 300000
	if l := s.cfg.MaxSteps * 3 / 4; l < spinLimit {
		spinLimit = l
	}
	for {
		synctest.Wait()
		if s.fail != nil || s.inconcl != "" {
			return
		}
		s.mu.Lock()
		mainDone := s.main.done
		s.mu.Unlock()
		if mainDone {
			return
		}
		now := time.Now()
		if now.Sub(s.start) > s.cfg.MaxSimTime {
			s.stall("simulated-time cap reached")
			return
		}
		if s.steps >= s.cfg.MaxSteps {
			s.inconcl = fmt.Sprintf("step cap %d reached", s.cfg.MaxSteps)
			return
		}
		var R []*Task
		var idle []*Task
		var next time.Time
		s.mu.Lock()
		// finished tasks are dropped from the active list (creation order kept)
		k := 0
		for _, t := range s.active {
			if !t.done {
				s.active[k] = t
				k++
			}
		}
		for i := k; i < len(s.active); i++ {
			s.active[i] = nil
		}
		s.active = s.active[:k]
		for _, t := range s.active {
			if !t.parked || t.done {
				continue
			}
			if t.idle {
				idle = append(idle, t)
				continue
			}
			en := t.pred == nil
			if !en {
				en = t.pred()
			}
			if !en && !t.deadline.IsZero() {
				if !now.Before(t.deadline) {
					en = true
				} else if next.IsZero() || t.deadline.Before(next) {
					next = t.deadline
				}
			}
			if en {
				R = append(R, t)
			}
		}
		s.mu.Unlock()
		if len(R) == 0 && len(idle) > 0 {
			R = idle[:1]
		}
		if len(R) == 0 {
			// nothing runnable: let the fake clock move to the next timer
			select {
			case <-s.wakeCh:
			default:
			}
			horizon := now.Add(2 * time.Hour)
			byHorizon := true
			if !next.IsZero() && next.Before(horizon) {
				horizon = next
				byHorizon = false
			}
			tm := time.NewTimer(horizon.Sub(now))
			select {
			case <-s.wakeCh:
				tm.Stop()
				horizonHits = 0
			case <-tm.C:
				if byHorizon {
					horizonHits++
					if horizonHits >= 2 {
						s.stall("no task runnable and no timer pending")
						return
					}
				} else {
					horizonHits = 0
				}
			}
			continue
		}
		horizonHits = 0
		t := s.pick(R)
		s.steps++
		// livelock detector: one task executing instrumented statements step
		// after step while the simulated clock stands still (whether or not
		// other tasks get a turn in between)
		if !now.Equal(spinAt) {
			spinAt = now
			for k := range spin {
				delete(spin, k)
			}
		}
		if strings.Contains(t.site, ".go:") {
			spin[t]++
			if spin[t] >= spinLimit {
				s.stall(fmt.Sprintf("livelock: task %s has executed %d statements of the library (now at %s) without the simulated clock moving: it is spinning", t.ID, spin[t], t.site))
				return
			}
		}
		s.hashStep(t)
		s.resume(t)
	}
}

func (s *Sim) hashStep(t *Task) {
	h := s.schedHash
	for i := 0; i < len(t.ID); i++ {
		h = (h ^ uint64(t.ID[i])) * 1099511628211
	}
	for i := 0; i < len(t.site); i++ {
		h = (h ^ uint64(t.site[i])) * 1099511628211
	}
	s.schedHash = h
	if s.cfg.Trace {
		s.trace = append(s.trace, fmt.Sprintf("%6d t=%-12v step %-28s %s", s.nextSeq(), time.Since(s.start), t.ID, t.site))
	} else {
		s.seq++
	}
}

func (s *Sim) nextSeq() uint64 { s.seq++; return s.seq }

// Seq returns the global event sequence number (monotone; advanced by every
// scheduler step and every logged event).
func (s *Sim) Seq() uint64 { return s.seq }

// Stamp advances and returns the global event number; oracles use it as the
// only notion of "when".
func (s *Sim) Stamp() uint64 { return s.nextSeq() }

func (s *Sim) resume(t *Task) {
	s.mu.Lock()
	t.parked = false
	t.pred = nil
	t.idle = false
	t.deadline = time.Time{}
	s.cur = t
	s.mu.Unlock()
	t.wake <- struct{}{}
}

// pick chooses the next task.  R is in creation order; the current task, if
// present, is moved to the front so that choice 0 means "no preemption".
func (s *Sim) pick(R []*Task) *Task {
	if len(R) > 1 && s.cur != nil {
		for i, t := range R {
			if t == s.cur {
				copy(R[1:i+1], R[:i])
				R[0] = t
				break
			}
		}
	}
	curIn := len(R) > 0 && R[0] == s.cur
	k := s.run.draw(len(R), func() int {
		n := len(R)
		switch s.strat {
		case stratUniform:
			return s.rng.IntN(n)
		case stratSticky50, stratSticky80, stratSticky95:
			if curIn && s.rng.IntN(100) < s.stickyPct {
				return 0
			}
			return s.rng.IntN(n)
		case stratNonPreempt:
			if curIn {
				return 0
			}
			return s.rng.IntN(n)
		default: // PCT-like: run the highest priority; lower it at change points
			if s.pctPoints[s.steps] && s.cur != nil {
				s.pctLow--
				s.cur.prio = s.pctLow
			}
			best := 0
			for i, t := range R {
				if t.prio == 0 {
					t.prio = 1 + s.rng.IntN(1<<20)
				}
				if t.prio > R[best].prio {
					best = i
				}
			}
			return best
		}
	})
	if curIn && k != 0 {
		s.preempts++
	}
	return R[k]
}

func (s *Sim) stall(why string) {
	if s.fail != nil {
		return
	}
	s.fail = &Failure{Class: "stall", Msg: why + "\n" + s.TaskDump()}
}

// TaskDump lists every live task and where it is.
func (s *Sim) TaskDump() string {
	var b strings.Builder
	raceOff()
	defer raceOn()
	s.mu.Lock()
	defer s.mu.Unlock()
	for _, t := range s.all {
		if t.done {
			continue
		}
		switch {
		case t.parked && t.pred != nil:
			fmt.Fprintf(&b, "  task %-24s origin=%-28s BLOCKED at %s on %s\n", t.ID, t.Origin, t.site, t.what)
		case t.parked && t.idle:
			fmt.Fprintf(&b, "  task %-24s origin=%-28s waiting-for-idle at %s\n", t.ID, t.Origin, t.site)
		case t.parked:
			fmt.Fprintf(&b, "  task %-24s origin=%-28s runnable at %s\n", t.ID, t.Origin, t.site)
		default:
			fmt.Fprintf(&b, "  task %-24s origin=%-28s BLOCKED in channel/timer operation after %s\n", t.ID, t.Origin, t.lastSite)
		}
	}
	return b.String()
}

// LiveTasks returns the tasks that have not finished, in creation order.
func (s *Sim) LiveTasks() []*Task {
	raceOff()
	defer raceOn()
	s.mu.Lock()
	defer s.mu.Unlock()
	var out []*Task
	for _, t := range s.all {
		if !t.done {
			out = append(out, t)
		}
	}
	return out
}

// Where describes a live task's position: "runnable@site", "blocked@site:what"
// or "chan@lastSite".
func (s *Sim) Where(t *Task) string {
	raceOff()
	defer raceOn()
	s.mu.Lock()
	defer s.mu.Unlock()
	switch {
	case t.done:
		return "done"
	case t.parked && t.pred != nil:
		return "blocked@" + t.site + ":" + t.what
	case t.parked:
		return "runnable@" + t.site
	default:
		return "chan@" + t.lastSite
	}
}

func (s *Sim) shutdown() {
	s.stopping.Store(true)
	for round := 0; round < 50; round++ {
		synctest.Wait()
		s.mu.Lock()
		var ps []*Task
		for _, t := range s.all {
			if t.parked && !t.done {
				ps = append(ps, t)
				t.parked = false
			}
		}
		s.mu.Unlock()
		if len(ps) == 0 {
			break
		}
		for _, t := range ps {
			t.wake <- struct{}{}
		}
	}
	synctest.Wait()
}

// ---------------------------------------------------------------------------
// task creation

func (s *Sim) newTask(id, origin string, lib bool) *Task {
	s.mu.Lock()
	defer s.mu.Unlock()
	for _, x := range s.all {
		if x.ID == id {
			panic("simrt: duplicate task id " + id)
		}
	}
	t := &Task{ID: id, Origin: origin, Lib: lib, idx: len(s.all), wake: make(chan struct{}, 1)}
	t.parked = true
	t.site = "start:" + origin
	t.lastSite = t.site
	s.all = append(s.all, t)
	s.active = append(s.active, t)
	s.live.Add(1)
	return t
}

type exitSentinel struct{}

// startTask must be called with the race detector's view enabled: the go
// statement is the one edge (creator happens-before task) the detector is meant
// to see.  Everything the new goroutine does before and after f is the
// scheduler's business and hidden.
func (s *Sim) startTask(t *Task, f func()) {
	go func() {
		raceOff()
		g := goid()
		s.mu.Lock()
		t.goid = g
		if !RaceEnabled {
			s.byGoid[g] = t
		}
		s.mu.Unlock()
		defer func() {
			r := recover()
			var stack string
			if r != nil {
				buf := make([]byte, 16<<10)
				stack = string(buf[:runtime.Stack(buf, false)])
			}
			// what the task did happens-before whoever joins it (Sim.Joined)
			raceReleaseMerge(unsafe.Pointer(&s.joinTok))
			raceOff()
			s.mu.Lock()
			t.done = true
			t.parked = false
			if !RaceEnabled {
				delete(s.byGoid, g)
			}
			s.mu.Unlock()
			s.live.Add(-1)
			if r != nil && !s.stopping.Load() {
				t.crashed = true
				s.crash(t, r, stack)
			}
			select {
			case s.wakeCh <- struct{}{}:
			default:
			}
		}()
		<-t.wake
		if s.stopping.Load() {
			return
		}
		raceOn()
		f()
	}()
}

// Joined is what a harness task calls after it has waited (by a Block on
// harness state) for other tasks to finish: it is the join edge a real program
// would have from a WaitGroup or a channel.  Only the race detector sees it.
func (s *Sim) Joined() { raceAcquire(unsafe.Pointer(&s.joinTok)) }

func (s *Sim) crash(t *Task, val interface{}, stack string) {
	if s.OnCrash != nil && s.OnCrash(t, val, stack) {
		return
	}
	if !t.Lib && !panicInLibrary(stack) {
		// a bug of the harness itself (on a harness task) is never reported as a
		// violation; a panic escaping a library-spawned goroutine always is: the
		// process would have crashed, whoever raised it
		if s.inconcl == "" && s.fail == nil {
			s.inconcl = fmt.Sprintf("HARNESS BUG: task %s (origin %s) panicked outside the library: %v\n%s", t.ID, t.Origin, val, trimStack(stack))
		}
		return
	}
	if s.fail == nil {
		s.fail = &Failure{Class: "panic", Msg: fmt.Sprintf("task %s (origin %s) died with an unrecovered panic: %v\n%s", t.ID, t.Origin, val, trimStack(stack))}
	}
}

// panicInLibrary reports whether the innermost non-runtime frame of a panic's
// stack belongs to the code under test.
func panicInLibrary(st string) bool {
	lines := strings.Split(st, "\n")
	seenPanic := false
	for _, l := range lines {
		if strings.HasPrefix(l, "panic(") || strings.HasPrefix(l, "runtime.gopanic") || strings.HasPrefix(l, "runtime.panic") || strings.HasPrefix(l, "runtime.goPanic") {
			seenPanic = true
			continue
		}
		if !seenPanic || strings.HasPrefix(l, "\t") || l == "" {
			continue
		}
		// skip runtime and standard-library frames: the first frame of the code
		// under test or of the harness decides
		if strings.Contains(l, "github.com/fluffle/goirc/") {
			return true
		}
		if strings.HasPrefix(l, "verifsim/worlds.") || strings.HasPrefix(l, "verifsim/simnet.") {
			return false
		}
	}
	return true
}

func trimStack(st string) string {
	lines := strings.Split(st, "\n")
	var out []string
	for _, l := range lines {
		if strings.Contains(l, "simrt.") || strings.Contains(l, "/simrt/") {
			continue
		}
		out = append(out, l)
		if len(out) > 24 {
			break
		}
	}
	return strings.Join(out, "\n")
}

// Spawn starts a harness task with a stable, unique name.
func (s *Sim) Spawn(name string, f func()) *Task {
	raceOff()
	t := s.newTask(name, "harness", false)
	raceOn()
	s.startTask(t, f)
	return t
}

// Go is what an instrumented `go` statement calls.
func Go(site string, f func()) {
	s := current.Load()
	if s == nil {
		go f()
		return
	}
	raceOff()
	p := s.self()
	if p == nil {
		raceOn()
		go f()
		return
	}
	p.spawned++
	t := s.newTask(fmt.Sprintf("%s/%d", p.ID, p.spawned), site, true)
	raceOn()
	s.startTask(t, f)
}

// AfterFunc replaces time.AfterFunc in instrumented code: the timer is a real
// (fake-clock) timer, so Stop and Reset work, but f runs as a task under the
// scheduler once the timer has fired.
func AfterFunc(d time.Duration, f func()) *time.Timer {
	s := current.Load()
	if s == nil {
		return time.AfterFunc(d, f)
	}
	raceOff()
	p := s.self()
	if p == nil {
		raceOn()
		return time.AfterFunc(d, f)
	}
	p.spawned++
	t := s.newTask(fmt.Sprintf("%s/%d", p.ID, p.spawned), "time.AfterFunc", true)
	raceOn()
	var fired atomic.Bool
	s.startTask(t, func() {
		Block("time.AfterFunc", "timer", func() bool { return fired.Load() })
		f()
	})
	return time.AfterFunc(d, func() {
		raceOff()
		defer raceOn()
		fired.Store(true)
		select {
		case s.wakeCh <- struct{}{}:
		default:
		}
	})
}

func (s *Sim) self() *Task {
	g := goid()
	if g == s.rootGoid {
		panic("simrt: instrumented or blocking code called from the scheduler (a Block predicate must only read harness state)")
	}
	s.mu.Lock()
	var t *Task
	if RaceEnabled {
		// no map here either (see counters); the live tasks are few
		for _, x := range s.all {
			if x.goid == g && !x.done {
				t = x
				break
			}
		}
	} else {
		t = s.byGoid[g]
	}
	s.mu.Unlock()
	return t
}

// Self returns the calling task (nil outside a task).
func (s *Sim) Self() *Task {
	raceOff()
	defer raceOn()
	return s.self()
}

// ---------------------------------------------------------------------------
// parking

func (s *Sim) park(t *Task, site, what string, pred func() bool, deadline time.Time, idle bool) {
	if s.stopping.Load() {
		s.exit(t)
		return
	}
	if pred == nil && !idle && s.live.Load() == 1 && s.fail == nil && s.inconcl == "" {
		// the only live task: nobody else could be chosen
		t.lastSite = site
		return
	}
	s.mu.Lock()
	t.site = site
	t.lastSite = site
	t.what = what
	t.pred = pred
	t.deadline = deadline
	t.idle = idle
	t.parked = true
	s.mu.Unlock()
	select {
	case s.wakeCh <- struct{}{}:
	default:
	}
	<-t.wake
	if s.stopping.Load() {
		s.exit(t)
	}
}

func (s *Sim) exit(t *Task) {
	if t.exiting {
		return // already unwinding: deferred calls must just run through
	}
	t.exiting = true
	runtime.Goexit()
}

// Yield is inserted before every statement of the instrumented packages.
func Yield(site string) {
	s := current.Load()
	if s == nil {
		return
	}
	raceOff()
	defer raceOn()
	t := s.self()
	if t == nil {
		return
	}
	s.park(t, site, "", nil, time.Time{}, false)
}

// Block parks the calling task until pred holds.  pred is evaluated by the
// scheduler at quiescence only.
func Block(site, what string, pred func() bool) {
	s := current.Load()
	if s == nil {
		panic("simrt.Block outside a simulation")
	}
	raceOff()
	defer raceOn()
	t := s.self()
	if t == nil {
		panic("simrt.Block on a goroutine that is not a task (" + site + ")")
	}
	s.park(t, site, what, pred, time.Time{}, false)
}

// BlockFor parks until pred holds or d of simulated time has passed; it
// reports whether pred held.
func BlockFor(site, what string, d time.Duration, pred func() bool) bool {
	raceOff()
	defer raceOn()
	s := current.Load()
	t := s.self()
	if t == nil {
		panic("simrt.BlockFor on a goroutine that is not a task (" + site + ")")
	}
	if s.stopping.Load() {
		s.exit(t)
		return false
	}
	s.park(t, site, what, pred, time.Now().Add(d), false)
	return pred()
}

// Sleep advances simulated time for the calling task.
func Sleep(d time.Duration) {
	raceOff()
	defer raceOn()
	s := current.Load()
	t := s.self()
	if t == nil {
		panic("simrt.Sleep on a goroutine that is not a task")
	}
	if d <= 0 {
		s.park(t, "sleep", "", nil, time.Time{}, false)
		return
	}
	end := time.Now().Add(d)
	s.park(t, "sleep", fmt.Sprintf("sleep %v", d), func() bool { return !time.Now().Before(end) }, end, false)
}

// WaitIdle parks the calling task until no other task is runnable.
func WaitIdle() {
	raceOff()
	defer raceOn()
	s := current.Load()
	t := s.self()
	if t == nil {
		panic("simrt.WaitIdle on a goroutine that is not a task")
	}
	s.park(t, "wait-idle", "idle", nil, time.Time{}, true)
}

// Settle sleeps d of simulated time and then waits for idle.
func Settle(d time.Duration) {
	Sleep(d)
	WaitIdle()
}

// ---------------------------------------------------------------------------
// choices, failures, logging, counters

// Plan draws from the plan vector (workload, knobs, fault plan).
func (s *Sim) Plan(n int) int {
	return s.plan.draw(n, func() int { return s.rng.IntN(n) })
}

// PlanW draws an index with the given weights from the plan vector.
func (s *Sim) PlanW(w ...int) int {
	return s.plan.draw(len(w), func() int { return weighted(s.rng, w) })
}

// Choose draws from the run vector (in-run decisions other than scheduling).
func (s *Sim) Choose(n int) int {
	return s.run.draw(n, func() int { return s.rng.IntN(n) })
}

// ChooseW draws an index with the given weights from the run vector.
func (s *Sim) ChooseW(w ...int) int {
	return s.run.draw(len(w), func() int { return weighted(s.rng, w) })
}

func weighted(r *pcg, w []int) int {
	tot := 0
	for _, x := range w {
		tot += x
	}
	if tot <= 0 {
		return 0
	}
	v := r.IntN(tot)
	for i, x := range w {
		if v < x {
			return i
		}
		v -= x
	}
	return len(w) - 1
}

// Fail records a violation (the first one wins) and ends the run.  When called
// from a task, the task does not continue.
func (s *Sim) Fail(class, format string, args ...interface{}) {
	raceOff()
	defer raceOn()
	if s.fail == nil {
		s.fail = &Failure{Class: class, Msg: fmt.Sprintf(format, args...)}
		s.Logf("FAIL %s: %s", class, s.fail.Msg)
	}
	if t := s.self(); t != nil {
		s.park(t, "failed", "run is ending", func() bool { return false }, time.Time{}, false)
	}
}

// fatal is what the Go runtime's "fatal error" is under the simulator: unlike a
// panic it cannot be recovered by the code under test - the process is gone.
func (s *Sim) fatal(msg string) {
	buf := make([]byte, 16<<10)
	stack := trimStack(string(buf[:runtime.Stack(buf, false)]))
	s.Fail("fatal-error", "fatal error: %s (the Go runtime ends the process here; no recover() can catch it)\n%s", msg, stack)
}

// Failed reports whether a violation has been recorded.
func (s *Sim) Failed() bool { return s.fail != nil }

// Inconclusive ends the run without a verdict.
func (s *Sim) Inconclusive(format string, args ...interface{}) {
	raceOff()
	defer raceOn()
	if s.inconcl == "" {
		s.inconcl = fmt.Sprintf(format, args...)
	}
	if t := s.self(); t != nil {
		s.park(t, "inconclusive", "run is ending", func() bool { return false }, time.Time{}, false)
	}
}

// Logf appends to the event log (hashed always, kept as text when tracing).
func (s *Sim) Logf(format string, args ...interface{}) {
	msg := fmt.Sprintf(format, args...)
	h := s.logHash
	for i := 0; i < len(msg); i++ {
		h = (h ^ uint64(msg[i])) * 1099511628211
	}
	s.logHash = h
	seq := s.nextSeq()
	if s.cfg.Trace {
		s.trace = append(s.trace, fmt.Sprintf("%6d t=%-12v %s", seq, time.Since(s.start), msg))
	}
}

// Tracing reports whether the textual log is kept.
func (s *Sim) Tracing() bool { return s.cfg.Trace }

// Count increments a fault/probe counter.
func (s *Sim) Count(name string) { s.CountN(name, 1) }

type counter struct {
	name string
	n    int
}

// CountN adds to a counter.
func (s *Sim) CountN(name string, n int) {
	for i := range s.counters {
		if s.counters[i].name == name {
			s.counters[i].n += n
			return
		}
	}
	s.counters = append(s.counters, counter{name, n})
}

// SetInfo records a string about the run (plan summary etc.).
func (s *Sim) SetInfo(k, v string) {
	for i := range s.info {
		if s.info[i][0] == k {
			s.info[i][1] = v
			return
		}
	}
	s.info = append(s.info, [2]string{k, v})
}

// Steps returns the number of scheduler steps so far.
func (s *Sim) Steps() int { return s.steps }

func hashString(x string) uint64 {
	h := fnv.New64a()
	h.Write([]byte(x))
	return h.Sum64()
}

var _ = hashString
