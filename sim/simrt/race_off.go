//go:build !race

package simrt

import "unsafe"

const RaceEnabled = false

func raceOff()                          {}
func raceOn()                           {}
func raceAcquire(p unsafe.Pointer)      {}
func raceRelease(p unsafe.Pointer)      {}
func raceReleaseMerge(p unsafe.Pointer) {}
