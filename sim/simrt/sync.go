package simrt

import (
	"fmt"
	"reflect"
	"sort"
	"sync"
	"unsafe"
)

// Race-detector view (race_on.go): each primitive hides its own bookkeeping
// (raceOff/raceOn) and announces the happens-before edges of its real
// counterpart in package sync, no more: Unlock -> later Lock; RUnlock -> later
// Lock and Unlock -> later RLock, but not RUnlock -> RLock; Done -> Wait's
// return; the end of Once's function -> every Do's return.

// Mutex has sync.Mutex's method set.  Inside a simulation it is a scheduler-
// visible lock (a task that cannot take it is parked as blocked on it);
// outside it falls back to a real mutex.
type Mutex struct {
	real   sync.Mutex
	locked bool
	owner  *Task
}

func (m *Mutex) Lock() {
	m.lock()
	raceAcquire(unsafe.Pointer(m))
}

func (m *Mutex) lock() {
	s := current.Load()
	if s == nil {
		m.real.Lock()
		return
	}
	raceOff()
	defer raceOn()
	t := s.self()
	if t == nil {
		panic("simrt.Mutex.Lock on a goroutine that is not a task")
	}
	if s.stopping.Load() {
		return
	}
	if m.locked {
		s.Count("probe.mutex-contended")
		s.park(t, "Mutex.Lock", "mutex held by "+ownerName(m.owner), func() bool { return !m.locked }, zeroTime, false)
		if s.stopping.Load() {
			return
		}
	}
	m.locked = true
	m.owner = t
}

func (m *Mutex) TryLock() bool {
	s := current.Load()
	if s == nil {
		return m.real.TryLock()
	}
	if m.locked {
		return false
	}
	m.locked = true
	raceOff()
	m.owner = s.self()
	raceOn()
	raceAcquire(unsafe.Pointer(m))
	return true
}

func (m *Mutex) Unlock() {
	s := current.Load()
	if s == nil {
		m.real.Unlock()
		return
	}
	raceRelease(unsafe.Pointer(m))
	if s.stopping.Load() {
		return
	}
	if !m.locked {
		s.fatal("sync: unlock of unlocked mutex")
		return
	}
	m.locked = false
	m.owner = nil
}

func ownerName(t *Task) string {
	if t == nil {
		return "?"
	}
	return t.ID
}

// RWMutex reproduces sync.RWMutex including writer preference: a waiting
// writer blocks new readers.
type RWMutex struct {
	real     sync.RWMutex
	writer   bool
	wowner   *Task
	readers  int
	wwaiting int
}

func (m *RWMutex) Lock() {
	m.lock()
	raceAcquire(unsafe.Pointer(&m.writer))
	raceAcquire(unsafe.Pointer(&m.readers))
}

func (m *RWMutex) lock() {
	s := current.Load()
	if s == nil {
		m.real.Lock()
		return
	}
	raceOff()
	defer raceOn()
	t := s.self()
	if t == nil {
		panic("simrt.RWMutex.Lock on a goroutine that is not a task")
	}
	if s.stopping.Load() {
		return
	}
	if m.writer || m.readers > 0 {
		m.wwaiting++
		s.Count("probe.rwmutex-writer-waits")
		s.park(t, "RWMutex.Lock", fmt.Sprintf("rwmutex (writer=%s readers=%d)", ownerName(m.wowner), m.readers),
			func() bool { return !m.writer && m.readers == 0 }, zeroTime, false)
		m.wwaiting--
		if s.stopping.Load() {
			return
		}
	}
	m.writer = true
	m.wowner = t
}

func (m *RWMutex) Unlock() {
	s := current.Load()
	if s == nil {
		m.real.Unlock()
		return
	}
	if s.stopping.Load() {
		return
	}
	if !m.writer {
		s.fatal("sync: Unlock of unlocked RWMutex")
		return
	}
	raceRelease(unsafe.Pointer(&m.writer))
	m.writer = false
	m.wowner = nil
}

func (m *RWMutex) RLock() {
	m.rlock()
	raceAcquire(unsafe.Pointer(&m.writer))
}

func (m *RWMutex) rlock() {
	s := current.Load()
	if s == nil {
		m.real.RLock()
		return
	}
	raceOff()
	defer raceOn()
	t := s.self()
	if t == nil {
		panic("simrt.RWMutex.RLock on a goroutine that is not a task")
	}
	if s.stopping.Load() {
		return
	}
	if m.writer || m.wwaiting > 0 {
		s.Count("probe.rwmutex-reader-waits")
		s.park(t, "RWMutex.RLock", fmt.Sprintf("rwmutex (writer=%s waiting-writers=%d)", ownerName(m.wowner), m.wwaiting),
			func() bool { return !m.writer && m.wwaiting == 0 }, zeroTime, false)
		if s.stopping.Load() {
			return
		}
	}
	m.readers++
}

func (m *RWMutex) RUnlock() {
	s := current.Load()
	if s == nil {
		m.real.RUnlock()
		return
	}
	if s.stopping.Load() {
		return
	}
	if m.readers <= 0 {
		s.fatal("sync: RUnlock of unlocked RWMutex")
		return
	}
	raceReleaseMerge(unsafe.Pointer(&m.readers))
	m.readers--
}

// TryLock and TryRLock follow sync.RWMutex: they never block, and a pending
// writer makes TryRLock fail like a held write lock does.
func (m *RWMutex) TryLock() bool {
	s := current.Load()
	if s == nil {
		return m.real.TryLock()
	}
	if m.writer || m.readers > 0 {
		return false
	}
	m.writer = true
	raceOff()
	m.wowner = s.self()
	raceOn()
	raceAcquire(unsafe.Pointer(&m.writer))
	raceAcquire(unsafe.Pointer(&m.readers))
	return true
}

func (m *RWMutex) TryRLock() bool {
	s := current.Load()
	if s == nil {
		return m.real.TryRLock()
	}
	if m.writer || m.wwaiting > 0 {
		return false
	}
	m.readers++
	raceAcquire(unsafe.Pointer(&m.writer))
	return true
}

func (m *RWMutex) RLocker() sync.Locker { return (*rlocker)(m) }

type rlocker RWMutex

func (r *rlocker) Lock()   { (*RWMutex)(r).RLock() }
func (r *rlocker) Unlock() { (*RWMutex)(r).RUnlock() }

// WaitGroup has sync.WaitGroup's method set.
type WaitGroup struct {
	real sync.WaitGroup
	n    int
}

func (w *WaitGroup) Add(d int) {
	s := current.Load()
	if s == nil {
		w.real.Add(d)
		return
	}
	if s.stopping.Load() {
		return
	}
	if d < 0 {
		raceReleaseMerge(unsafe.Pointer(w))
	}
	w.n += d
	if w.n < 0 {
		// (this one is an ordinary panic in package sync)
		panic("sync: negative WaitGroup counter")
	}
}

func (w *WaitGroup) Done() { w.Add(-1) }

func (w *WaitGroup) Wait() {
	w.wait()
	raceAcquire(unsafe.Pointer(w))
}

func (w *WaitGroup) wait() {
	s := current.Load()
	if s == nil {
		w.real.Wait()
		return
	}
	raceOff()
	defer raceOn()
	t := s.self()
	if t == nil {
		panic("simrt.WaitGroup.Wait on a goroutine that is not a task")
	}
	if s.stopping.Load() {
		return
	}
	if w.n > 0 {
		s.park(t, "WaitGroup.Wait", fmt.Sprintf("waitgroup (counter %d)", w.n), func() bool { return w.n == 0 }, zeroTime, false)
	}
}

// ---------------------------------------------------------------------------
// select and map-range helpers used by instrumented code

// SelectOrder returns a permutation of 0..n-1 drawn from the run vector: the
// order in which an instrumented multi-case select polls its cases.
func SelectOrder(site string, n int) []int {
	p := make([]int, n)
	for i := range p {
		p[i] = i
	}
	s := current.Load()
	raceOff()
	defer raceOn()
	if s == nil || s.stopping.Load() || s.self() == nil {
		return p
	}
	for i := 0; i < n-1; i++ {
		j := i + s.run.draw(n-i, func() int { return s.rng.IntN(n - i) })
		p[i], p[j] = p[j], p[i]
	}
	return p
}

// Gate returns ch when on, else the nil channel of the same type.
func Gate[C any](ch C, on bool) C {
	if on {
		return ch
	}
	var zero C
	return zero
}

// SelectHit counts that a polled case was ready (probe).
func SelectHit(level int) {
	if s := current.Load(); s != nil && level > 0 {
		s.Count("probe.select-second-choice-ready")
	}
}

// MapOrder returns the keys of m in a deterministic order permuted by the run
// vector, so that iteration order is both explored and replayable.
func MapOrder[K comparable, V any](m map[K]V) []K {
	keys := make([]K, 0, len(m))
	for k := range m {
		keys = append(keys, k)
	}
	if len(keys) < 2 {
		return keys
	}
	sk := make([]string, len(keys))
	for i, k := range keys {
		sk[i] = sortKey(reflect.ValueOf(k))
	}
	idx := make([]int, len(keys))
	for i := range idx {
		idx[i] = i
	}
	sort.SliceStable(idx, func(a, b int) bool { return sk[idx[a]] < sk[idx[b]] })
	out := make([]K, len(keys))
	for i, j := range idx {
		out[i] = keys[j]
	}
	s := current.Load()
	raceOff()
	defer raceOn()
	if s == nil || s.stopping.Load() || s.self() == nil {
		return out
	}
	n := len(out)
	for i := 0; i < n-1; i++ {
		j := i + s.run.draw(n-i, func() int { return s.rng.IntN(n - i) })
		out[i], out[j] = out[j], out[i]
	}
	return out
}

func sortKey(v reflect.Value) string {
	switch v.Kind() {
	case reflect.String:
		return v.String()
	case reflect.Ptr:
		if v.IsNil() {
			return ""
		}
		e := v.Elem()
		if e.Kind() == reflect.Struct {
			for i := 0; i < e.NumField(); i++ {
				if e.Field(i).Kind() == reflect.String {
					return e.Field(i).String()
				}
			}
		}
		return ""
	case reflect.Int, reflect.Int8, reflect.Int16, reflect.Int32, reflect.Int64:
		return fmt.Sprintf("%020d", v.Int())
	case reflect.Uint, reflect.Uint8, reflect.Uint16, reflect.Uint32, reflect.Uint64:
		return fmt.Sprintf("%020d", v.Uint())
	}
	return ""
}

// Once is sync.Once under the simulator: a second caller arriving while the
// function runs parks until it has returned.
type Once struct {
	real    sync.Once
	done    bool
	running bool
}

func (o *Once) Do(f func()) {
	s := current.Load()
	if s == nil {
		o.real.Do(f)
		return
	}
	if o.done {
		raceAcquire(unsafe.Pointer(o))
		return
	}
	if o.running {
		func() {
			raceOff()
			defer raceOn()
			t := s.self()
			if t == nil {
				panic("simrt.Once.Do on a goroutine that is not a task")
			}
			s.park(t, "Once.Do", "once (another caller is running the function)", func() bool { return o.done }, zeroTime, false)
		}()
		raceAcquire(unsafe.Pointer(o))
		return
	}
	o.running = true
	defer func() {
		raceRelease(unsafe.Pointer(o))
		o.done, o.running = true, false
	}()
	f()
}

// Cond is sync.Cond under the simulator (FIFO wake-up order for Signal).
type Cond struct {
	L       sync.Locker
	real    *sync.Cond
	waiters []*bool
}

func NewCond(l sync.Locker) *Cond { return &Cond{L: l, real: sync.NewCond(l)} }

func (c *Cond) Wait() {
	s := current.Load()
	if s == nil {
		c.real.Wait()
		return
	}
	woken := false
	c.waiters = append(c.waiters, &woken)
	c.L.Unlock()
	func() {
		raceOff()
		defer raceOn()
		t := s.self()
		if t == nil {
			panic("simrt.Cond.Wait on a goroutine that is not a task")
		}
		s.park(t, "Cond.Wait", "condition variable", func() bool { return woken }, zeroTime, false)
	}()
	c.L.Lock()
}

func (c *Cond) Signal() {
	if current.Load() == nil {
		c.real.Signal()
		return
	}
	if len(c.waiters) > 0 {
		*c.waiters[0] = true
		c.waiters = c.waiters[1:]
	}
}

func (c *Cond) Broadcast() {
	if current.Load() == nil {
		c.real.Broadcast()
		return
	}
	for _, w := range c.waiters {
		*w = true
	}
	c.waiters = nil
}

// Pool stands in for sync.Pool.  Which item Get returns is a source of
// nondeterminism in the real one (per-P caches, the garbage collector); here it
// is always the item put back last, the choice most likely to expose a user
// that still holds on to what it has put back.
type Pool struct {
	New   func() interface{}
	items []interface{}
	real  sync.Pool
}

func (p *Pool) Get() interface{} {
	if current.Load() == nil {
		if x := p.real.Get(); x != nil {
			return x
		}
		if p.New != nil {
			return p.New()
		}
		return nil
	}
	Yield("Pool.Get")
	if n := len(p.items); n > 0 {
		x := p.items[n-1]
		p.items[n-1] = nil
		p.items = p.items[:n-1]
		raceAcquire(unsafe.Pointer(p))
		return x
	}
	if p.New != nil {
		return p.New()
	}
	return nil
}

func (p *Pool) Put(x interface{}) {
	if x == nil {
		return
	}
	if current.Load() == nil {
		p.real.Put(x)
		return
	}
	Yield("Pool.Put")
	raceReleaseMerge(unsafe.Pointer(p))
	p.items = append(p.items, x)
}
