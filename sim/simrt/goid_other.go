//go:build !amd64

package simrt

import "runtime"

func goid() uint64 {
	var buf [48]byte
	n := runtime.Stack(buf[:], false)
	var id uint64
	for i := 10; i < n; i++ {
		c := buf[i]
		if c < '0' || c > '9' {
			break
		}
		id = id*10 + uint64(c-'0')
	}
	return id
}
