package simrt

import "testing"

func TestGoidFastPath(t *testing.T) {
	if goidOffset == 0 {
		t.Skip("goid offset not calibrated: slow path in use")
	}
	for i := 0; i < 50; i++ {
		done := make(chan bool)
		go func() { done <- goid() == slowGoid() }()
		if !<-done {
			t.Fatal("fast goid disagrees with runtime.Stack")
		}
	}
	t.Logf("goid offset %d", goidOffset)
}
