module verifsim

go 1.26.0

require (
	github.com/anishathalye/porcupine v1.3.0
	github.com/emersion/go-sasl v0.0.0-20220912192320-0145f2c60ead
	github.com/fluffle/goirc v0.0.0
	golang.org/x/net v0.59.0
	golang.org/x/tools v0.50.0
)

require (
	github.com/golang/mock v1.5.0 // indirect
	golang.org/x/mod v0.41.0 // indirect
	golang.org/x/sync v0.23.0 // indirect
)

replace github.com/fluffle/goirc => /repo
