// Package simnet is the in-memory transport and dialer the simulated client
// talks through.  All blocking goes through simrt.Block, every random choice
// through the run vector, every fault that fires is counted.
package simnet

import (
	"context"
	"errors"
	"io"
	"net"
	"net/url"
	"os"
	"strings"
	"sync"
	"time"

	"golang.org/x/net/proxy"

	"verifsim/simrt"
)

// WriteRec is one Write call made by the client on its socket.
type WriteRec struct {
	T     time.Duration // simulated time since the start of the run
	Start time.Duration // when the Write call these bytes belong to was made (a call may be accepted in parts)
	Seq   uint64        // global event number
	Data  string
}

// Link is one simulated TCP connection.  The client holds *Conn; the harness
// (server task) uses the Link methods.
type Link struct {
	S    *simrt.Sim
	ID   int
	Addr string // address the dialer was asked for

	s2c    []byte
	s2cEOF bool
	rdErr  error

	c2s        []byte // written by the client, not yet read by the server
	srvBuf     []byte // read by the server, not yet framed into lines
	Writes     []WriteRec
	AllC2S     []byte // everything the client ever wrote successfully
	ClientEnd  bool   // client called Close
	closeN     int
	rdl, wdl   time.Time // deadlines set by the client
	writeStart time.Duration

	// fault plan (0 = never)
	ReadErrAtOp  int
	EOFAtOp      int
	WriteErrAtOp int
	ShortWrite   bool
	CloseErr     bool // Close() of a link the peer has already ended reports an error
	Window       int  // max bytes buffered towards the server; 0 = unbounded
	ChunkMode    int  // 0: as much as fits, 1: random prefix, 2: single bytes, 3: random small (1..8)
	StallReads   bool
	Opaque       bool // log sizes only (TLS: the bytes are random, the sizes are not)

	Reads, WritesN int
	FaultFired     bool // an injected read/write fault has fired
	ClientSawEnd   bool // a Read returned EOF/error or a Write returned an error to the client
	BytesIn        int  // bytes delivered to the client
}

var ErrClosed = errors.New("use of closed network connection")
var ErrReset = errors.New("sim: connection reset by peer")
var ErrWrite = errors.New("sim: write: broken pipe")

type addr string

func (a addr) Network() string { return "sim" }
func (a addr) String() string  { return string(a) }

// Conn is the client's end.
type Conn struct{ L *Link }

func (c *Conn) LocalAddr() net.Addr  { return addr("client") }
func (c *Conn) RemoteAddr() net.Addr { return addr(c.L.Addr) }

// Deadlines are instants of the simulated clock (time.Now inside the bubble);
// the zero time means none, as for net.Conn.
func (c *Conn) SetDeadline(t time.Time) error      { c.L.rdl, c.L.wdl = t, t; return nil }
func (c *Conn) SetReadDeadline(t time.Time) error  { c.L.rdl = t; return nil }
func (c *Conn) SetWriteDeadline(t time.Time) error { c.L.wdl = t; return nil }

// blockUntil parks the calling task until pred holds or the deadline passes;
// it reports false on a timeout.
func blockUntil(site, what string, dl time.Time, pred func() bool) bool {
	if dl.IsZero() {
		simrt.Block(site, what, pred)
		return true
	}
	d := time.Until(dl)
	if d <= 0 {
		return pred()
	}
	return simrt.BlockFor(site, what, d, pred)
}

func (c *Conn) Read(p []byte) (int, error) {
	l := c.L
	l.Reads++
	if l.ClientEnd {
		return 0, &net.OpError{Op: "read", Net: "sim", Err: ErrClosed}
	}
	if !l.rdl.IsZero() && !time.Now().Before(l.rdl) {
		// like a real socket: a deadline that has already passed (also one set
		// to "now") fails the call at once, whether or not data is waiting
		l.S.Count("fault.read-deadline-exceeded")
		l.S.Logf("net%d read#%d -> deadline already passed", l.ID, l.Reads)
		return 0, &net.OpError{Op: "read", Net: "sim", Err: os.ErrDeadlineExceeded}
	}
	if l.ReadErrAtOp != 0 && l.Reads == l.ReadErrAtOp {
		l.S.Count("fault.read-error")
		l.FaultFired = true
		l.ClientSawEnd = true
		l.S.Logf("net%d read#%d -> injected error", l.ID, l.Reads)
		return 0, &net.OpError{Op: "read", Net: "sim", Err: ErrReset}
	}
	if l.EOFAtOp != 0 && l.Reads == l.EOFAtOp {
		l.S.Count("fault.read-eof-at-op")
		l.FaultFired = true
		l.ClientSawEnd = true
		l.S.Logf("net%d read#%d -> injected EOF", l.ID, l.Reads)
		l.s2cEOF = true
		l.s2c = nil
		return 0, io.EOF
	}
	if len(l.s2c) == 0 && !l.s2cEOF && l.rdErr == nil && !l.ClientEnd {
		if !blockUntil("simnet.Read", "socket read (no data from server)", l.rdl, func() bool {
			return len(l.s2c) > 0 || l.s2cEOF || l.rdErr != nil || l.ClientEnd
		}) {
			l.S.Count("fault.read-deadline-exceeded")
			l.S.Logf("net%d read#%d -> deadline exceeded", l.ID, l.Reads)
			return 0, &net.OpError{Op: "read", Net: "sim", Err: os.ErrDeadlineExceeded}
		}
	}
	if l.ClientEnd {
		return 0, &net.OpError{Op: "read", Net: "sim", Err: ErrClosed}
	}
	if len(l.s2c) > 0 {
		n := len(l.s2c)
		if n > len(p) {
			n = len(p)
		}
		switch l.ChunkMode {
		case 1:
			if n > 1 {
				n = n - l.S.Choose(n) // choice 0 = everything
				l.S.Count("fault.read-segmented")
			}
		case 2:
			n = 1
		case 3:
			if n > 1 {
				m := 8
				if n < m {
					m = n
				}
				n = 1 + l.S.Choose(m)
				l.S.Count("fault.read-segmented")
			}
		}
		copy(p, l.s2c[:n])
		if n < len(l.s2c) && l.s2c[n-1] == '\r' {
			l.S.Count("probe.crlf-split-across-reads")
		}
		l.s2c = l.s2c[n:]
		l.BytesIn += n
		if l.S.Tracing() {
			l.S.Logf("net%d read#%d -> %d bytes", l.ID, l.Reads, n)
		}
		return n, nil
	}
	l.ClientSawEnd = true
	if l.rdErr != nil {
		l.S.Logf("net%d read#%d -> error %v", l.ID, l.Reads, l.rdErr)
		return 0, &net.OpError{Op: "read", Net: "sim", Err: l.rdErr}
	}
	l.S.Logf("net%d read#%d -> EOF", l.ID, l.Reads)
	return 0, io.EOF
}

func (c *Conn) Write(p []byte) (int, error) {
	l := c.L
	l.WritesN++
	l.writeStart = l.S.Now()
	if l.ClientEnd {
		return 0, &net.OpError{Op: "write", Net: "sim", Err: ErrClosed}
	}
	if l.rdErr != nil {
		l.ClientSawEnd = true
		return 0, &net.OpError{Op: "write", Net: "sim", Err: ErrWrite}
	}
	if !l.wdl.IsZero() && !time.Now().Before(l.wdl) {
		l.S.Count("fault.write-deadline-exceeded")
		l.S.Logf("net%d write#%d -> deadline already passed", l.ID, l.WritesN)
		return 0, &net.OpError{Op: "write", Net: "sim", Err: os.ErrDeadlineExceeded}
	}
	if l.WriteErrAtOp != 0 && l.WritesN == l.WriteErrAtOp {
		n := 0
		if l.ShortWrite && len(p) > 1 {
			n = 1 + l.S.Choose(len(p)-1)
			l.S.Count("fault.short-write")
			l.appendC2S(p[:n])
		}
		l.S.Count("fault.write-error")
		l.FaultFired = true
		l.ClientSawEnd = true
		l.S.Logf("net%d write#%d -> injected error after %d bytes", l.ID, l.WritesN, n)
		return n, &net.OpError{Op: "write", Net: "sim", Err: ErrWrite}
	}
	// like a socket buffer: bytes are accepted as far as the window has room,
	// the call blocks for the rest, and a write deadline that passes meanwhile
	// returns the count accepted so far
	done := 0
	for l.Window > 0 && len(l.c2s)+len(p)-done > l.Window {
		if room := l.Window - len(l.c2s); room > 0 {
			l.appendC2S(p[done : done+room])
			done += room
			if done > 0 && done < len(p) {
				l.S.Count("probe.write-blocked-mid-buffer")
			}
			continue
		}
		l.S.Count("fault.write-backpressure")
		if !blockUntil("simnet.Write", "socket write (server not reading)", l.wdl, func() bool {
			return len(l.c2s) < l.Window || l.ClientEnd || l.rdErr != nil
		}) {
			l.S.Count("fault.write-deadline-exceeded")
			l.S.Logf("net%d write#%d -> deadline exceeded after %d of %d bytes", l.ID, l.WritesN, done, len(p))
			return done, &net.OpError{Op: "write", Net: "sim", Err: os.ErrDeadlineExceeded}
		}
		if l.ClientEnd {
			return done, &net.OpError{Op: "write", Net: "sim", Err: ErrClosed}
		}
		if l.rdErr != nil {
			l.ClientSawEnd = true
			return done, &net.OpError{Op: "write", Net: "sim", Err: ErrWrite}
		}
	}
	l.appendC2S(p[done:])
	return len(p), nil
}

func (l *Link) appendC2S(p []byte) {
	l.c2s = append(l.c2s, p...)
	l.AllC2S = append(l.AllC2S, p...)
	l.Writes = append(l.Writes, WriteRec{T: l.S.Now(), Start: l.writeStart, Seq: l.S.Stamp(), Data: string(p)})
	if l.S.Tracing() {
		if l.Opaque {
			l.S.Logf("net%d write#%d %d bytes", l.ID, l.WritesN, len(p))
		} else {
			l.S.Logf("net%d write#%d %q", l.ID, l.WritesN, string(p))
		}
	}
}

func (c *Conn) Close() error {
	l := c.L
	l.closeN++
	if l.ClientEnd {
		return &net.OpError{Op: "close", Net: "sim", Err: ErrClosed}
	}
	l.ClientEnd = true
	l.S.Logf("net%d closed by client", l.ID)
	if l.CloseErr && (l.s2cEOF || l.rdErr != nil) {
		// the socket is closed all the same, but the close reports what it could
		// not do any more (a TLS close_notify that cannot be written after the
		// peer has gone, a pipe whose other end is closed)
		l.S.Count("fault.close-reports-an-error")
		return &net.OpError{Op: "close", Net: "sim", Err: ErrWrite}
	}
	return nil
}

// ---- server side ----------------------------------------------------------

// Send queues bytes for the client to read.
func (l *Link) Send(data string) {
	if l.ClientEnd || l.s2cEOF {
		return
	}
	l.s2c = append(l.s2c, data...)
	if l.S.Tracing() {
		if l.Opaque {
			l.S.Logf("net%d server sends %d bytes", l.ID, len(data))
		} else {
			l.S.Logf("net%d server sends %q", l.ID, data)
		}
	}
}

// SendLine queues one CRLF-terminated line.
func (l *Link) SendLine(line string) { l.Send(line + "\r\n") }

// Pending reports how many bytes the client has not read yet.
func (l *Link) Pending() int { return len(l.s2c) }

// CloseByServer makes the client see EOF after the queued data.
func (l *Link) CloseByServer() {
	if !l.s2cEOF {
		l.s2cEOF = true
		l.S.Logf("net%d closed by server (EOF after %d pending bytes)", l.ID, len(l.s2c))
	}
}

// Reset makes client reads fail (after the queued data) and writes fail.
func (l *Link) Reset() {
	if l.rdErr == nil {
		l.rdErr = ErrReset
		l.S.Count("fault.peer-reset")
		l.S.Logf("net%d reset by peer", l.ID)
	}
}

// Down reports whether the server side has ended the link.
func (l *Link) Down() bool { return l.s2cEOF || l.rdErr != nil }

// pull moves what the client has written into the server's own buffer (the
// server "reads" bytes, which frees the write window, and frames lines itself).
func (l *Link) pull() {
	if len(l.c2s) > 0 {
		l.srvBuf = append(l.srvBuf, l.c2s...)
		l.c2s = l.c2s[:0]
	}
}

// TryRecvLine returns the next complete line the client wrote, if any.
func (l *Link) TryRecvLine() (string, bool) {
	l.pull()
	i := strings.IndexByte(string(l.srvBuf), '\n')
	if i < 0 {
		return "", false
	}
	line := string(l.srvBuf[:i+1])
	l.srvBuf = append(l.srvBuf[:0], l.srvBuf[i+1:]...)
	return line, true
}

// HasLine reports whether a complete line is waiting (does not read).
func (l *Link) HasLine() bool {
	return strings.IndexByte(string(l.srvBuf), '\n') >= 0 || strings.IndexByte(string(l.c2s), '\n') >= 0
}

// RecvLine blocks until the client has written a complete line (returned with
// its terminator) or closed the connection.
func (l *Link) RecvLine() (string, bool) {
	for {
		if ln, ok := l.TryRecvLine(); ok {
			return ln, true
		}
		if l.ClientEnd {
			return "", false
		}
		simrt.Block("simnet.RecvLine", "server waiting for a client line", func() bool {
			return len(l.c2s) > 0 || l.ClientEnd
		})
	}
}

// RecvLineFor is RecvLine with a simulated-time limit.
func (l *Link) RecvLineFor(d time.Duration) (string, bool) {
	end := l.S.Now() + d
	for {
		if ln, ok := l.TryRecvLine(); ok {
			return ln, true
		}
		if l.ClientEnd {
			return "", false
		}
		left := end - l.S.Now()
		if left <= 0 {
			return "", false
		}
		simrt.BlockFor("simnet.RecvLine", "server waiting for a client line", left, func() bool {
			return len(l.c2s) > 0 || l.ClientEnd
		})
	}
}

// Unread returns the bytes written by the client that the server has not
// framed into a line yet (possibly a partial line).
func (l *Link) Unread() string { return string(l.srvBuf) + string(l.c2s) }

// ServerConn is the server's end as a net.Conn (used to put a real crypto/tls
// server behind the simulated socket).
type ServerConn struct{ L *Link }

func (c *ServerConn) LocalAddr() net.Addr                { return addr(c.L.Addr) }
func (c *ServerConn) RemoteAddr() net.Addr               { return addr("client") }
func (c *ServerConn) SetDeadline(t time.Time) error      { return nil }
func (c *ServerConn) SetReadDeadline(t time.Time) error  { return nil }
func (c *ServerConn) SetWriteDeadline(t time.Time) error { return nil }

func (c *ServerConn) Read(p []byte) (int, error) {
	l := c.L
	if len(l.c2s) == 0 && !l.ClientEnd {
		simrt.Block("simnet.ServerRead", "server waiting for client bytes", func() bool { return len(l.c2s) > 0 || l.ClientEnd })
	}
	if len(l.c2s) == 0 {
		return 0, io.EOF
	}
	n := copy(p, l.c2s)
	l.c2s = append(l.c2s[:0], l.c2s[n:]...)
	return n, nil
}

func (c *ServerConn) Write(p []byte) (int, error) {
	if c.L.ClientEnd {
		return 0, &net.OpError{Op: "write", Net: "sim", Err: ErrClosed}
	}
	c.L.Send(string(p))
	return len(p), nil
}

func (c *ServerConn) Close() error { c.L.CloseByServer(); return nil }

// ---- dialer ----------------------------------------------------------------

// DialFunc is installed by the world for the duration of a run.
type DialFunc func(ctx context.Context, network, address string, ctxAware bool) (net.Conn, error)

var (
	dialMu sync.Mutex
	dialFn DialFunc
)

func SetDial(f DialFunc) { dialMu.Lock(); dialFn = f; dialMu.Unlock() }

func getDial() DialFunc { dialMu.Lock(); defer dialMu.Unlock(); return dialFn }

type plainDialer struct{}

func (plainDialer) Dial(network, address string) (net.Conn, error) {
	f := getDial()
	if f == nil {
		return nil, errors.New("simnet: no dial function installed")
	}
	return f(context.Background(), network, address, false)
}

type ctxDialer struct{ plainDialer }

func (ctxDialer) DialContext(ctx context.Context, network, address string) (net.Conn, error) {
	f := getDial()
	if f == nil {
		return nil, errors.New("simnet: no dial function installed")
	}
	return f(ctx, network, address, true)
}

func init() {
	proxy.RegisterDialerType("sim", func(u *url.URL, fwd proxy.Dialer) (proxy.Dialer, error) { return plainDialer{}, nil })
	proxy.RegisterDialerType("simctx", func(u *url.URL, fwd proxy.Dialer) (proxy.Dialer, error) { return ctxDialer{}, nil })
}

// DirectDialContext stands in for (*net.Dialer).DialContext in instrumented
// code: the client's direct (non-proxy) dial reaches the same simulated
// network as the registered proxy dialers.
func DirectDialContext(dialer interface{}, ctx context.Context, network, address string) (net.Conn, error) {
	f := getDial()
	if f == nil {
		return nil, errors.New("simnet: no dial function installed")
	}
	return f(ctx, network, address, true)
}
